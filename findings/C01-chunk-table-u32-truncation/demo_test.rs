// append to crates/cascette-formats/src/blte/header.rs.  Needs about 9 GiB of memory and ~20 s.
// Before the fix commit: `multi_chunk` returns Ok with compressed_size == 1 for a chunk of 2^32 + 1
// bytes (the u32 cast wraps) - an untruthful chunk table and no error.  After it: Err(InvalidChunkSize).
//   cargo test --offline --release -p cascette-formats --lib c01_chunk_table_u32_demo -- --ignored
#[cfg(test)]
#[allow(clippy::expect_used, clippy::unwrap_used)]
mod c01_chunk_table_u32_demo {
    use super::*;
    use crate::blte::chunk::{ChunkData, CompressionMode};

    #[test]
    #[ignore = "allocates 4 GiB twice"]
    fn four_gib_chunk_is_refused_not_truncated() {
        let payload = vec![0u8; (u32::MAX as usize) + 1];
        let chunk = ChunkData::from_compressed(CompressionMode::None, payload, None);
        let chunks = vec![
            ChunkData::from_compressed(CompressionMode::None, vec![1, 2, 3], None),
            chunk,
        ];
        match BlteHeader::multi_chunk(&chunks) {
            Err(_) => {}
            Ok(h) => {
                let row = &h.extended.as_ref().unwrap().chunk_infos[1];
                panic!(
                    "untruthful chunk table: chunk of {} bytes recorded as compressed_size {} / decompressed_size {}",
                    chunks[1].compressed_size(),
                    row.compressed_size,
                    row.decompressed_size
                );
            }
        }
    }
}
