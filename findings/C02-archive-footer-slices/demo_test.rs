// demonstration: ArchiveIndex::parse must return Err (never panic) on crafted footers
#[cfg(test)]
mod verif_demo_footer {
    use super::*;
    use std::io::Cursor;

    #[test]
    fn oversized_footer_hash_bytes_is_an_error_not_a_panic() {
        // footer_hash_bytes (read at end-13 and again inside the footer) = 200 > 8
        let data = vec![200u8; 400];
        let r = std::panic::catch_unwind(|| ArchiveIndex::parse(Cursor::new(&data)).is_err());
        assert_eq!(r.ok(), Some(true), "parse must fail closed");
    }

    #[test]
    fn short_footer_hash_is_an_error_not_a_panic() {
        // footer_hash_bytes = 3 < 8: the mismatch report sliced footer_hash[..8]
        let data = vec![3u8; 64];
        let r = std::panic::catch_unwind(|| ArchiveIndex::parse(Cursor::new(&data)).is_err());
        assert_eq!(r.ok(), Some(true), "parse must fail closed");
    }
}
