// demonstration: remove_entry must tell the truth when the bucket's update section is full
#[cfg(test)]
#[allow(clippy::expect_used)]
mod verif_demo_remove_full {
    use super::*;

    fn key(a: u8, b: u8) -> EncodingKey {
        // xor of the first 9 bytes is 1 for every (a, b): all keys land in bucket 1
        let mut k = [0u8; 16];
        k[0] = a;
        k[1] = b;
        k[2] = a ^ b;
        k[8] = 1;
        EncodingKey::from_bytes(k)
    }

    #[test]
    fn remove_entry_with_full_update_section() {
        let dir = tempfile::tempdir().expect("tempdir");
        let mut m = IndexManager::new(dir.path());
        let victim = key(0, 0);
        m.add_entry(&victim, 1, 100, 10).expect("add victim");
        // 60 pages x 21 entries = 1260 slots: fill the section exactly, without triggering a flush
        let mut n = 1usize;
        'outer: for a in 0..=255u8 {
            for b in 0..=255u8 {
                if (a, b) == (0, 0) {
                    continue;
                }
                if n == 1260 {
                    break 'outer;
                }
                m.add_entry(&key(a, b), 2, n as u32, 10).expect("add filler");
                n += 1;
            }
        }
        assert!(m.has_entry(&victim));
        let removed = m.remove_entry(&victim);
        assert!(
            !(removed && m.has_entry(&victim)),
            "remove_entry returned true but the key is still found"
        );
        assert!(removed, "the key was present, so it must be removable");
        assert!(!m.has_entry(&victim));
        assert!(m.has_entry(&key(0, 1)), "other keys stay");
    }
}
