// append to crates/cascette-formats/src/zbsdiff/patcher.rs; fails (both tests panic with 'attempt to add with overflow')
// before the fix commit, passes after it:  cargo test --offline -p cascette-formats --lib c02_seek_saturation_demo
#[cfg(test)]
#[allow(clippy::expect_used, clippy::unwrap_used)]
mod c02_seek_saturation_demo {
    use super::*;
    use crate::zbsdiff::utils::{ControlBlock, ControlEntry, compress_zlib};
    use binrw::BinWrite;

    fn crafted_patch() -> Vec<u8> {
        // three forward seeks saturate the old-file position at usize::MAX, then one diff byte is applied
        let block = ControlBlock::with_entries(vec![
            ControlEntry::new(0, 0, i64::MAX),
            ControlEntry::new(0, 0, i64::MAX),
            ControlEntry::new(0, 0, i64::MAX),
            ControlEntry::new(1, 0, 0),
        ])
        .unwrap();
        let control = block.to_compressed().unwrap();
        let diff = compress_zlib(&[7u8]).unwrap();
        let extra = compress_zlib(&[]).unwrap();
        let header = ZbsdiffHeader::new(control.len() as i64, diff.len() as i64, 1).unwrap();
        let mut out = Vec::new();
        let mut c = std::io::Cursor::new(&mut out);
        header.write_options(&mut c, binrw::Endian::Little, ()).unwrap();
        out.extend_from_slice(&control);
        out.extend_from_slice(&diff);
        out.extend_from_slice(&extra);
        out
    }

    #[test]
    fn memory_patcher_does_not_panic_on_saturated_seek() {
        let patch = crafted_patch();
        let r = std::panic::catch_unwind(|| apply_patch_memory(b"abc", &patch));
        assert!(r.is_ok(), "apply_patch_memory panicked on a crafted patch");
        // bytes beyond EOF read as zero: 0 + 7
        assert_eq!(r.unwrap().unwrap(), vec![7u8]);
    }

    #[test]
    fn streaming_patcher_does_not_panic_on_saturated_seek() {
        let patch = crafted_patch();
        let r = std::panic::catch_unwind(|| {
            ZbsdiffPatcher::new(std::io::Cursor::new(b"abc".to_vec()), 1).apply_patch_from_data(&patch)
        });
        assert!(r.is_ok(), "streaming patcher panicked on a crafted patch");
        assert_eq!(r.unwrap().unwrap(), vec![7u8]);
    }
}
