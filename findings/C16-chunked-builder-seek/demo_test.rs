// demonstration: a chunked patch must reproduce `new` when more than 256 non-matching bytes are
// followed by a region that matches `old` again (the extra triple carried old_pos as a RELATIVE seek)
#[cfg(test)]
mod verif_demo_chunked {
    use super::*;
    use crate::zbsdiff::apply_patch_memory;

    #[test]
    fn chunked_patch_applies_after_long_extra_run() {
        let old: Vec<u8> = b"AAAABBBBCCCC".to_vec();
        let mut new: Vec<u8> = b"AAAA".to_vec();
        new.extend(std::iter::repeat(b'x').take(256));
        new.extend_from_slice(b"BBBB");
        let patch = ZbsdiffBuilder::new(old.clone(), new.clone()).build_chunked_patch().expect("build");
        let out = apply_patch_memory(&old, &patch).expect("apply");
        assert_eq!(out, new);
    }
}
