// demonstration: two add_data calls under with_encryption (Salsa20) must decode to the concatenation
#[cfg(test)]
#[allow(clippy::expect_used)]
mod verif_demo_add_data {
    use super::*;
    use cascette_crypto::{TactKey, TactKeyStore};

    #[test]
    fn two_add_data_calls_under_encryption_round_trip() {
        let key_name = 0x1234_5678_90AB_CDEF;
        let key = [7u8; 16];
        let spec = EncryptionSpec::salsa20(key_name, [0x11, 0x22, 0x33, 0x44]);
        let blte = BlteBuilder::new()
            .with_encryption(spec, key)
            .add_data(b"first part, ")
            .expect("add 1")
            .add_data(b"second part")
            .expect("add 2")
            .build()
            .expect("build");
        let mut store = TactKeyStore::new();
        store.add(TactKey::new(key_name, key));
        let out = blte.decompress_with_keys(&store);
        assert_eq!(out.ok().as_deref(), Some(&b"first part, second part"[..]));
    }
}
