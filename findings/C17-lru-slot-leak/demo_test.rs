mod verif_demo {
    use super::*;
    #[test]
    fn capacity_survives_evict_to_target() {
        let dir = tempfile::tempdir().unwrap();
        let mut lru = LruManager::new(4, dir.path().to_path_buf());
        for i in 0..4u8 { assert!(lru.touch(&[i + 1; 9])); }
        let (n, _) = lru.evict_to_target(4, 1);
        assert_eq!(n, 4);
        assert!(lru.touch(&[9; 9]), "touch with capacity >= 1 must succeed");
        assert!(lru.contains(&[9; 9]));
    }
}
