// demonstration: a merge plan must never direct data onto bytes the destination already uses
#[cfg(test)]
mod verif_demo_merge_plan {
    use super::*;
    use crate::storage::segment::{SegmentHeader, SegmentInfo, SegmentState};

    fn seg(index: u16, used: u64) -> SegmentInfo {
        let mut s = SegmentInfo::new(index, SegmentHeader::zeroed());
        s.state = SegmentState::Frozen;
        s.write_position = used;
        s
    }

    #[test]
    fn first_destination_keeps_its_own_bytes() {
        let segs = [seg(0, 100), seg(1, 200)];
        let plan = plan_archive_merge(&segs, 0.5, 1000);
        assert_eq!(plan.moves.len(), 1);
        let m = &plan.moves[0];
        let dest_used = segs[m.dest_segment as usize].write_position;
        assert!(
            m.dest_offset >= dest_used,
            "move lands at {} inside the destination's live bytes [0, {})",
            m.dest_offset,
            dest_used
        );
        assert!(m.dest_offset + m.length <= 1000);
    }
}
