#!/usr/bin/env python3
"""Run the registered checks against every seeded change under /verif/seeded/<name>/ :
apply patch.diff to /repo's working tree, run ./check <property> (quick unless --tier), revert.
Writes /verif/seeded/results.json.   usage: run_seeds.py [--tier quick] [--only name-substr]"""
import argparse, json, os, subprocess, sys, time
os.environ["VERIF_EVIDENCE_DIR"] = "/var/tmp/vp-scratch-evidence"
VERIF = os.path.dirname(os.path.dirname(os.path.abspath(__file__)))
ap = argparse.ArgumentParser(); ap.add_argument("--tier", default="quick"); ap.add_argument("--only", action="append", default=[])
a = ap.parse_args()
res_path = os.path.join(VERIF, "seeded", "results.json")
results = json.load(open(res_path)) if os.path.exists(res_path) else {}
assert subprocess.run(["git", "-C", "/repo", "status", "--porcelain", "--untracked-files=no"], capture_output=True, text=True).stdout.strip() == "", "/repo working tree must be clean"
for name in sorted(os.listdir(os.path.join(VERIF, "seeded"))):
    d = os.path.join(VERIF, "seeded", name)
    if not os.path.isdir(d) or not os.path.exists(os.path.join(d, "patch.diff")):
        continue
    if a.only and not any(o in name for o in a.only):
        continue
    meta = json.load(open(os.path.join(d, "meta.json")))
    prop = meta["property"]
    ap_ = subprocess.run(["git", "-C", "/repo", "apply", os.path.join(d, "patch.diff")], capture_output=True, text=True)
    if ap_.returncode != 0:
        results[name] = {"property": prop, "result": "patch-does-not-apply", "detail": ap_.stderr[-300:]}
        continue
    t0 = time.time()
    try:
        p = subprocess.run([os.path.join(VERIF, "check"), prop, "--tier", a.tier], capture_output=True, text=True, cwd=VERIF)
    finally:
        subprocess.run(["git", "-C", "/repo", "checkout", "--", "."], check=True)
    lines = [l for l in p.stdout.split("\n") if l.startswith(("VIOLATION", "UNDECIDED", "KNOWN-FINDING"))]
    viol = []
    for l in lines:
        if l.startswith("VIOLATION"):
            rp = l.split("replay=")[1].split()[0]
            try:
                viol.append(json.load(open(rp))["failed_obligation"])
            except Exception:
                viol.append(rp)
    results[name] = {"property": prop, "tier": a.tier, "exit": p.returncode, "detected": p.returncode == 1, "failed_obligations": viol, "undecided": [l[:300] for l in lines if l.startswith("UNDECIDED")][:3], "wall_s": round(time.time() - t0, 1), "summary": p.stdout.strip().split("\n")[-1][:200]}
    print(name, json.dumps(results[name])[:400], flush=True)
    json.dump(results, open(res_path, "w"), indent=1)
json.dump(results, open(res_path, "w"), indent=1)
