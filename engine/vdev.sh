#!/bin/sh
# dev helper: build a verus unit and verify only one function. usage: vdev.sh <unit> <fn-pattern> [extra verus args]
unit=$1; fn=$2; shift 2
cd /verif/engine && python3 - "$unit" <<'PY'
import sys, verus_unit, os
spec = verus_unit.parse_vc(f"/verif/contracts/verus/{sys.argv[1]}.vc")
b = verus_unit.UnitBuilder(spec, "/repo")
os.makedirs("/var/tmp/vp-manual", exist_ok=True)
open(f"/var/tmp/vp-manual/vu_{sys.argv[1]}.rs", "w").write(b.build())
print("rlimit", spec.rlimit)
PY
cd /var/tmp/vp-manual && verus --edition=2024 vu_$unit.rs --verify-function "$fn" --verify-root --triggers-mode silent "$@" 2>&1 | grep -v "^warning: Verus does not\|autoderive\|^ *= help\|^$" | head -${VLINES:-60}
