#!/usr/bin/env python3
"""Top-level check: ./check <PROPERTY> [--tier quick|thorough]

exit 0  every obligation generated from /repo's current tree was discharged
exit 1  an obligation that is part of the property's contract failed
        -> prints `VIOLATION property=<id> replay=<path>[ no-failing-input-found]`
exit 2  undecided (lost anchor, construct outside the verified subset, tool crash, timeout)
        -> prints `UNDECIDED property=<id> reason=...`, never a VIOLATION line
"""
from __future__ import annotations
import argparse
import atexit
import json
import os
import re
import shutil
import subprocess
import sys
import time
import tomllib
from concurrent.futures import ThreadPoolExecutor

ENGINE = os.path.dirname(os.path.abspath(__file__))
VERIF = os.path.dirname(ENGINE)
sys.path.insert(0, ENGINE)
import verus_unit  # noqa: E402
import kani_group  # noqa: E402

REPO = os.environ.get("VERIF_REPO", "/repo")


def slug(s: str) -> str:
    return re.sub(r"[^A-Za-z0-9_.-]+", "_", s).strip("_")[:120]


def load_known() -> tuple[list[dict], list[dict]]:
    findings, fixed = [], []
    p = os.path.join(VERIF, "known_findings.txt")
    if os.path.exists(p):
        for l in open(p):
            l = l.strip()
            if l.startswith("finding:"):
                m = re.match(r"finding:\s+property=(\S+)\s+obligation=(\S+)\s+(.*)", l)
                if m:
                    findings.append({"property": m.group(1), "obligation": m.group(2), "what": m.group(3)})
            elif l.startswith("fixed:"):
                fixed.append({"line": l})
    return findings, fixed


def main() -> int:
    ap = argparse.ArgumentParser()
    ap.add_argument("property")
    ap.add_argument("--tier", default=os.environ.get("VERIF_TIER", "quick"))
    ap.add_argument("--keep", action="store_true")
    ap.add_argument("--only", action="append", default=[])
    ap.add_argument("--replay", default=None)
    ap.add_argument("--verus-only", action="store_true", help="development / self-test only: skip the Kani units")
    args = ap.parse_args()
    tier = args.tier if args.tier in ("quick", "thorough") else "quick"
    pid = args.property
    seed = int(os.environ.get("VERIF_SEED", "0") or 0)
    if args.replay:
        print(open(args.replay).read())
        return 0
    reg = tomllib.load(open(os.path.join(VERIF, "contracts", "registry.toml"), "rb"))
    if pid not in reg["property"]:
        print(f"UNDECIDED property={pid} reason=not-claimed")
        return 2
    P = reg["property"][pid]
    t0 = time.time()
    workroot = f"/var/tmp/vp-{os.getpid()}"
    os.makedirs(workroot, exist_ok=True)
    if not args.keep:
        atexit.register(lambda: shutil.rmtree(workroot, ignore_errors=True))
    os.makedirs(os.path.join(VERIF, "evidence"), exist_ok=True)
    os.makedirs(os.path.join(VERIF, "replays"), exist_ok=True)
    known, fixed = load_known()

    verus_results = []
    vunits = [u for u in P.get("verus", [])]
    if args.only:
        vunits = [u for u in vunits if any(o in u for o in args.only)]

    def run_v(u):
        return verus_unit.run_unit(os.path.join(VERIF, "contracts", "verus", u + ".vc"), REPO, os.path.join(workroot, "verus"), threads=4)

    with ThreadPoolExecutor(max_workers=4) as ex:
        verus_results = list(ex.map(run_v, vunits))

    kunits = [os.path.join(VERIF, "contracts", "kani", u + ".toml") for u in P.get("kani", [])]
    if args.only:
        kunits = [u for u in kunits if any(o in u for o in args.only)] or ([] if vunits else kunits)
    if args.verus_only:
        kunits = []
    kani_results = kani_group.run_units(kunits, REPO, tier, workroot, pid, jobs=int(os.environ.get("VERIF_JOBS", "14")), keep=args.keep, only=None) if kunits else []

    # ------------------------------------------------------------------ collect
    obligations = []   # every generated obligation: {id, backend, kind, status, time_s, detail}
    violations = []
    undecided = []
    functions = []
    assumptions = set(P.get("assumptions", []))
    trusted = list(reg.get("trusted_base", [])) + list(P.get("trusted_base", []))
    bounded = []
    rewrite_counts = {}
    smt_ms = 0
    for r in verus_results:
        for k, v in r.rewrite_counts.items():
            rewrite_counts[k] = rewrite_counts.get(k, 0) + v
        smt_ms += r.smt_ms
        for it in r.items:
            functions.append({"backend": "verus", "unit": r.unit, **it})
        for a in r.assumptions:
            assumptions.add(f"verus/{r.unit}: {a}")
        if r.status == "undecided":
            undecided.append(f"verus/{r.unit}: {r.reason}")
        elif getattr(r, "lost", None):
            undecided.append(f"verus/{r.unit}: anchor lost: " + "; ".join(r.lost))
        failed_fns = {}
        for f in r.failures:
            failed_fns.setdefault(f.function, []).append(f)
        for fn in r.functions:
            short = fn["function"]
            if short.split("::")[-1].startswith("canary__") or short.split("::")[-1] == "clone":
                continue
            obligations.append({"id": f"verus/{r.unit}/{short}", "backend": "verus+z3", "kind": "unbounded", "status": "discharged" if fn["success"] else "failed", "time_s": round(fn["time_us"] / 1e6, 3)})
        for fnname, fl in failed_fns.items():
            for f in fl:
                violations.append({"obligation": f"verus/{r.unit}/{fnname}", "backend": "verus", "kind": f.kind, "clause": f.clause, "clause_ref": f.clause_ref, "repo_ref": f.repo_ref, "verifier_output": f.rendered, "unit": r.unit, "paired": P.get("paired_kani", {}).get(r.unit, [])})
    for g in kani_results:
        for a in g.get("annotated", []):
            functions.append({"backend": "kani", **a})
        for a in g.get("assumptions", []):
            assumptions.add(a)
        if g["status"] == "undecided" and not g["harnesses"]:
            undecided.append(f"kani/{g['group']}: {g['reason']}")
        for h in g["harnesses"]:
            oid = f"kani/{h['name']}"
            rec = {"id": oid, "backend": "kani+cbmc", "kind": h["kind"], "status": {"success": "discharged", "failure": "failed"}.get(h["status"], h["status"]), "time_s": h["time_s"], "obligation": h["obligation"]}
            if h["kind"] == "bounded":
                rec["bound"] = h["bound"]
                bounded.append(rec)
            else:
                obligations.append(rec)
            for s in h.get("stubs", []):
                assumptions.add(f"kani stub in {h['name'].split('::')[-1]}: {s.strip('- ').strip()}")
            if h["status"] == "failure":
                violations.append({"obligation": oid, "backend": "kani", "kind": h["kind"], "clause": h["obligation"], "failed_checks": h["checks_failed"], "verifier_output": h["output_tail"], "playback": h.get("playback"), "unit": g["group"]})
            elif h["status"] != "success":
                undecided.append(f"{oid}: {h['status']} {h['reason']}")

    # ------------------------------------------------------------------ verdict
    rc = 0
    lines = []
    new_violations = 0
    for v in violations:
        kf = next((k for k in known if k["property"] == pid and k["obligation"] == v["obligation"]), None)
        if kf:
            lines.append(f"KNOWN-FINDING: property={pid} {v['obligation']} {kf['what']}")
            continue
        new_violations += 1
        rp = os.path.join(VERIF, "replays", f"{pid}-{slug(v['obligation'])}.json")
        has_input = bool(v.get("playback") and v["playback"].get("reproduced"))
        json.dump({"property": pid, "failed_obligation": v["obligation"], "backend": v["backend"], "clause": v.get("clause"), "clause_ref": v.get("clause_ref"), "repo_ref": v.get("repo_ref"), "failed_checks": v.get("failed_checks"), "counterexample": v.get("playback"), "failing_input_found": has_input, "verifier_output": v.get("verifier_output"), "tier": tier, "note": "obligation passes on the unchanged tree (see evidence on the pinned commit); it is generated from /repo's current source on every run"}, open(rp, "w"), indent=1)
        lines.append(f"VIOLATION property={pid} replay={rp}" + ("" if has_input else " no-failing-input-found"))
        rc = 1
    if rc == 0 and undecided:
        rc = 2
        for u in undecided[:10]:
            lines.append(f"UNDECIDED property={pid} reason={u[:600]}")
    n_obl = len(obligations)
    n_dis = sum(1 for o in obligations if o["status"] == "discharged")
    if rc == 0 and n_dis == 0 and not bounded:
        rc = 2
        lines.append(f"UNDECIDED property={pid} reason=zero obligations generated")
    level = P.get("level", "proof")
    if n_obl == 0:
        level = "other"
    wall = round(time.time() - t0, 1)
    cov = {
        "obligations": n_obl,
        "discharged": n_dis,
        "checker_cmd": "verus --edition=2024 <unit>.rs --output-json --time-expanded ; cargo kani -p <crate> -Z function-contracts -Z stubbing --harness <h> --exact",
        "trusted_base": trusted,
        "explanation": P.get("explanation", ""),
        "samples": [{k: o[k] for k in ("id", "backend", "kind", "status", "time_s") if k in o} | ({"obligation": o["obligation"]} if "obligation" in o else {}) for o in (obligations + bounded)],
        "functions_under_contract": functions,
        "bounded_standins_not_counted_as_proved": bounded,
        "bounded_discharged": sum(1 for b in bounded if b["status"] == "discharged"),
        "rewrite_rule_hits": rewrite_counts,
        "solver_time_s": {"verus_smt": round(smt_ms / 1000, 2), "kani_harness_sum": round(sum(h["time_s"] for g in kani_results for h in g["harnesses"]), 1), "kani_build": round(sum(g.get("build_s", 0) for g in kani_results), 1)},
        "not_covered": P.get("not_covered", []),
        "undecided": undecided,
        "overlay_diff": {g["group"]: g.get("overlay_diff", {}) for g in kani_results},
        "known_findings_matched": [l for l in lines if l.startswith("KNOWN-FINDING")],
        "evaluations": n_obl + len(bounded),
        "distinct_nontrivial": n_dis + sum(1 for b in bounded if b["status"] == "discharged"),
        "rule": "one evaluation = one proof obligation (a Verus function query or a Kani harness) generated from /repo's current source; distinct_nontrivial counts the discharged ones; trivially-true canaries are excluded",
    }
    ev = {"property_id": pid, "tier": tier, "seed": seed, "level": level, "coverage": cov, "assumptions": sorted(assumptions), "wall_s": wall, "violations": new_violations}
    # self-test / seeded-change runs patch /repo on purpose: they must not overwrite the evidence of the real tree
    ev_dir = os.environ.get("VERIF_EVIDENCE_DIR") or os.path.join(VERIF, "evidence")
    os.makedirs(ev_dir, exist_ok=True)
    json.dump(ev, open(os.path.join(ev_dir, f"{pid}.json"), "w"), indent=1)
    for l in lines:
        print(l)
    print(f"[{pid}] tier={tier} obligations={n_obl} discharged={n_dis} bounded={len(bounded)} violations={new_violations} undecided={len(undecided)} wall={wall}s exit={rc}")
    return rc


if __name__ == "__main__":
    sys.exit(main())
