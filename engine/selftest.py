#!/usr/bin/env python3
"""Mutation self-test (DESIGN §7): apply each listed edit to /repo's working tree, run the
property's check, restore the file.  Expected: breaking edit -> exit 1 naming the expected
obligation; harmless edit -> exit 0 (or 2, never 1).

usage: selftest.py <PROPERTY> [--tier quick] [--only name]
mutations live in /verif/selftest/<PROPERTY>.toml:
  [[mutation]] name, file, find, replace, nth (1-based, default 1), expect = "violation"|"pass", obligation = "substring"
"""
import argparse, json, os, subprocess, sys, tomllib, time
os.environ["VERIF_EVIDENCE_DIR"] = "/var/tmp/vp-scratch-evidence"

VERIF = os.path.dirname(os.path.dirname(os.path.abspath(__file__)))
REPO = "/repo"

def main():
    ap = argparse.ArgumentParser()
    ap.add_argument("property")
    ap.add_argument("--tier", default="quick")
    ap.add_argument("--only", action="append", default=[])
    ap.add_argument("--check-only", action="append", default=[])
    a = ap.parse_args()
    muts = tomllib.load(open(os.path.join(VERIF, "selftest", a.property + ".toml"), "rb"))["mutation"]
    rows = []
    bad = 0
    for m in muts:
        if a.only and not any(o in m["name"] for o in a.only):
            continue
        path = os.path.join(REPO, m["file"])
        orig = open(path).read()
        nth = m.get("nth", 1)
        idx = -1
        for _ in range(nth):
            idx = orig.find(m["find"], idx + 1)
            if idx < 0:
                break
        if idx < 0:
            rows.append({"name": m["name"], "result": "mutation-site-not-found"})
            bad += 1
            continue
        new = orig[:idx] + m["replace"] + orig[idx + len(m["find"]):]
        t0 = time.time()
        try:
            open(path, "w").write(new)
            cmd = [os.path.join(VERIF, "check"), a.property, "--tier", a.tier]
            for o in (m.get("check_only", []) + a.check_only):
                cmd += ["--only", o]
            if m.get("verus_only"):
                cmd += ["--verus-only"]
            p = subprocess.run(cmd, capture_output=True, text=True, cwd=VERIF)
        finally:
            open(path, "w").write(orig)
        out = p.stdout
        viol = [l for l in out.split("\n") if l.startswith("VIOLATION")]
        ok = False
        if m["expect"] == "violation":
            ok = p.returncode == 1 and any(m.get("obligation", "") in json.load(open(l.split("replay=")[1].split()[0]))["failed_obligation"] for l in viol)
        else:
            ok = p.returncode in (0, 2) and not viol
        rows.append({"name": m["name"], "expect": m["expect"], "exit": p.returncode, "ok": ok, "violations": [l.split("replay=")[1] for l in viol], "wall_s": round(time.time() - t0, 1), "tail": out.strip().split("\n")[-1][:200]})
        if not ok:
            bad += 1
        print(json.dumps(rows[-1]))
    subprocess.run(["git", "-C", REPO, "status", "--short"], check=False)
    os.makedirs(os.path.join(VERIF, "selftest", "results"), exist_ok=True)
    json.dump(rows, open(os.path.join(VERIF, "selftest", "results", f"{a.property}-{a.tier}.json"), "w"), indent=1)
    print(f"selftest {a.property}: {len(rows) - bad}/{len(rows)} as expected")
    return 1 if bad else 0

if __name__ == "__main__":
    sys.exit(main())
