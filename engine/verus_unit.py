"""Verus route: extract real items from /repo, apply the named rewrite rules,
splice the contract from a .vc file at structural anchors, run `verus`, and map
every diagnostic back to (function, clause).

.vc format (line oriented; a line starting with '@' opens a section):

  @unit <name>
  @property <id>
  @prelude                      verus code placed before the items (spec fns, lemmas, shims)
  @rewrite <RULE> <from> => <to>   token-exact replacement applied to every extracted item (R3 shims)
  @item <repo-relative file> :: <item path>     e.g. `impl InstallTag::fn has_file`
  @opt external_body | no_canary | ret <name> | skip_body_check
  @requires / @ensures / @decreases             header clauses (one per line or comma separated)
  @loop <n>                     clauses for loop ordinal n (invariant/decreases ...)
  @body_start / @before_tail / @end_of_body / @after_loop <n> / @before_loop <n>   ghost code
  @postlude                     verus code after the items (lemmas about the contracts)

Everything between sections is taken literally. The generated file is
  use vstd::prelude::*; verus!{ prelude; items...; canaries; postlude } fn main(){}
"""
from __future__ import annotations
import hashlib
import json
import os
import re
import subprocess
import time
from dataclasses import dataclass, field

import rustlex

TRACING_MACROS = ("debug", "info", "warn", "trace", "error")

VERIF_FAIL_PATTERNS = [
    "postcondition not satisfied",
    "precondition not satisfied",
    "requires not satisfied",  # the `requires` of an `assert .. by(..) requires ..` proof step
    "assertion failed",
    "invariant not satisfied",
    "possible arithmetic underflow/overflow",
    "possible division by zero",
    "possible bit shift underflow/overflow",
    "decreases not satisfied",
    "could not prove termination",
    "unreachable",
    "loop invariant",
    "recommendation not met",
    "failed this postcondition",
    "assertion not satisfied",
    "may be out of bounds",
    "cannot prove",
    "possible truncation",
]
RLIMIT_PATTERNS = ["rlimit", "Resource limit", "timed out", "while verifying this"]


class AnchorLost(Exception):
    pass


class UnsupportedConstruct(Exception):
    pass


@dataclass
class ItemSpec:
    file: str
    path: str
    opts: list[str] = field(default_factory=list)
    sections: dict[str, list[tuple[int, str]]] = field(default_factory=dict)  # name -> [(vc line no, text)]
    line: int = 0


@dataclass
class UnitSpec:
    name: str = ""
    property: str = ""
    vc_path: str = ""
    prelude: list[tuple[int, str]] = field(default_factory=list)
    postlude: list[tuple[int, str]] = field(default_factory=list)
    rewrites: list[tuple[str, str, str]] = field(default_factory=list)
    items: list[ItemSpec] = field(default_factory=list)
    expect_verified_min: int = 0
    rlimit: int = 0


def parse_vc(path: str) -> UnitSpec:
    u = UnitSpec(vc_path=path)
    cur: list[tuple[int, str]] | None = None
    item: ItemSpec | None = None
    for ln, raw in enumerate(open(path).read().split("\n"), 1):
        if raw.startswith("@"):
            head, _, rest = raw[1:].partition(" ")
            rest = rest.strip()
            if head == "unit":
                u.name = rest
                cur = None
            elif head == "property":
                u.property = rest
                cur = None
            elif head == "rlimit":
                u.rlimit = int(rest)
                cur = None
            elif head == "include":
                inc = os.path.join(os.path.dirname(path), rest)
                for k2, l2 in enumerate(open(inc).read().split("\n"), 1):
                    u.prelude.append((k2, l2))
                cur = None
            elif head == "prelude":
                cur = u.prelude
            elif head == "postlude":
                cur = u.postlude
            elif head == "rewrite":
                rule, _, body = rest.partition(" ")
                frm, _, to = body.partition("=>")
                u.rewrites.append((rule, frm.strip(), to.strip()))
                cur = None
            elif head == "item":
                f, _, p = rest.partition("::")
                item = ItemSpec(f.strip(), p.strip(), line=ln)
                u.items.append(item)
                cur = None
            elif head == "opt":
                item.opts.append(rest)
                cur = None
            elif head in ("requires", "ensures", "decreases", "body_start", "before_tail", "end_of_body"):
                cur = item.sections.setdefault(head, [])
                if rest:
                    cur.append((ln, rest))
            elif head in ("loop", "after_loop", "before_loop", "loop_body_start", "loop_body_end"):
                cur = item.sections.setdefault(f"{head} {int(rest)}", [])
            elif head in ("after_stmt", "before_stmt"):
                n, _, pat = rest.partition(" ")
                cur = item.sections.setdefault(f"{head} {int(n)} {pat.strip()}", [])
            elif head == "#":
                pass
            else:
                raise ValueError(f"{path}:{ln}: unknown section @{head}")
        else:
            if cur is not None:
                cur.append((ln, raw))
    return u


# ---------------------------------------------------------------------------
# rewrite rules


def rule_R1_drop_tracing(text: str, counts: dict) -> str:
    """R1: drop `debug!/info!/warn!/trace!/error!(...);` statements (optionally `tracing::` qualified)."""
    toks = rustlex.lex(text)
    out = []
    k = 0
    while k < len(toks):
        t = toks[k]
        if t.kind == "ident" and t.text in TRACING_MACROS:
            j = k + 1
            if j < len(toks) and toks[j].text == "!":
                j += 1
                while toks[j].kind == "ws":
                    j += 1
                if toks[j].text == "(":
                    c = rustlex.match_close(toks, j)
                    e = c + 1
                    while e < len(toks) and toks[e].kind == "ws":
                        e += 1
                    if e < len(toks) and toks[e].text == ";":
                        # drop optional `tracing::` prefix already emitted
                        while out and out[-1].strip() == "":
                            out.pop()
                        if len(out) >= 3 and out[-1] == ":" and out[-2] == ":" and out[-3] == "tracing":
                            del out[-3:]
                        # keep newlines so line numbers survive
                        dropped = text[t.start:toks[e].end]
                        out.append("\n" * dropped.count("\n"))
                        counts["R1"] = counts.get("R1", 0) + 1
                        k = e + 1
                        continue
        out.append(t.text)
        k += 1
    return "".join(out)


def rule_R2_ref_patterns(text: str, counts: dict) -> str:
    """R2: `Some(&x)` in `if let` / `while let` / `let .. else` patterns -> `Some(x__r)` + `let x = *x__r;`
    inserted as first statement of the block that the pattern guards."""
    pat = re.compile(r"\b(if|while)\s+let\s+Some\(\s*&\s*([a-z_][a-z0-9_]*)\s*\)\s*=")
    while True:
        m = pat.search(text)
        if not m:
            break
        var = m.group(2)
        toks = rustlex.lex(text)
        # find the '{' that opens the guarded block: first '{' at depth 0 after match end
        k = next(i for i, t in enumerate(toks) if t.start >= m.end())
        while True:
            t = toks[k]
            if t.kind == "punct" and t.text == "{":
                break
            if t.kind == "punct" and t.text in ("(", "["):
                k = rustlex.match_close(toks, k) + 1
                continue
            k += 1
        brace = toks[k].end
        new_head = text[m.start():m.end()].replace("&", "").replace(var, var + "__r", 1)
        text = text[:m.start()] + new_head + text[m.end():brace] + f" let {var} = *{var}__r;" + text[brace:]
        counts["R2"] = counts.get("R2", 0) + 1
    return text


def rule_R3_token_replace(text: str, frm: str, to: str, rule: str, counts: dict) -> str:
    """token-exact replacement of the token sequence `frm` by `to` (whitespace-insensitive)."""
    ftoks = [t.text for t in rustlex.lex(frm) if t.kind != "ws"]
    toks = rustlex.lex(text)
    sigidx = [i for i, t in enumerate(toks) if t.kind not in ("ws", "comment", "doc")]
    out_ranges = []
    p = 0
    while p + len(ftoks) <= len(sigidx):
        if all(toks[sigidx[p + q]].text == ftoks[q] for q in range(len(ftoks))):
            out_ranges.append((toks[sigidx[p]].start, toks[sigidx[p + len(ftoks) - 1]].end))
            p += len(ftoks)
        else:
            p += 1
    for a, b in reversed(out_ranges):
        nl = text[a:b].count("\n")
        text = text[:a] + to + "\n" * nl + text[b:]
        counts[rule] = counts.get(rule, 0) + 1
    return text


def rule_R7_format(text: str, counts: dict) -> str:
    """R7: `format!(..)` -> `vshim_format()` (an external_body fn returning an unspecified String):
    message text never influences control flow in the functions under contract."""
    toks = rustlex.lex(text)
    out = []
    k = 0
    while k < len(toks):
        t = toks[k]
        if t.kind == "ident" and t.text == "format" and k + 2 < len(toks) and toks[k + 1].text == "!" and toks[k + 2].text == "(":
            c = rustlex.match_close(toks, k + 2)
            dropped = text[t.start:toks[c].end]
            out.append("vshim_format()" + "\n" * dropped.count("\n"))
            counts["R7"] = counts.get("R7", 0) + 1
            k = c + 1
            continue
        out.append(t.text)
        k += 1
    return "".join(out)


def rule_R10_mut_self(text: str, counts: dict) -> str:
    """R10: Verus rejects a `mut self` parameter.  `fn f(mut self, ..) { B }` becomes
    `fn f(self, ..) { let mut this = self; B[self := this] }` - rebinding a by-value parameter into a
    mutable local is the same program."""
    shape = rustlex.fn_shape(text)
    sig = text[:shape.sig_end]
    m = re.search(r"\(\s*mut\s+self\b", sig)
    if not m:
        return text
    sig2 = sig[:m.start()] + re.sub(r"mut\s+self", "self", sig[m.start():m.end()]) + sig[m.end():]
    body = text[shape.sig_end:]
    toks = rustlex.lex(body)
    out = []
    first_brace = True
    for t in toks:
        if t.kind == "ident" and t.text == "self":
            out.append("this")
        elif first_brace and t.kind == "punct" and t.text == "{":
            out.append("{ let mut this = self;")
            first_brace = False
        else:
            out.append(t.text)
    counts["R10"] = counts.get("R10", 0) + 1
    return sig2 + "".join(out)


def rule_R11_enumerate(text: str, counts: dict) -> str:
    """R11: `for (I, X) in E.iter().enumerate() {` -> `for I in 0..E.len() { let X = &E[I];` where E is a
    plain place expression (identifiers, `self`, `.`).  For a Vec or slice E the two loops visit the same
    (index, &element) pairs in the same order; Verus has no spec for the iterator adapters."""
    while True:
        toks = rustlex.lex(text)
        sig = [i for i, t in enumerate(toks) if t.kind not in ("ws", "comment", "doc")]
        hit = None
        for p, i in enumerate(sig):
            if toks[i].kind == "ident" and toks[i].text == "for":
                tx = [toks[j].text for j in sig[p:p + 7]]
                if len(tx) == 7 and tx[1] == "(" and tx[3] == "," and tx[5] == ")" and tx[6] == "in" and toks[sig[p + 2]].kind == "ident" and toks[sig[p + 4]].kind == "ident":
                    q = p + 7
                    expr = []
                    while q < len(sig) and (toks[sig[q]].kind == "ident" or toks[sig[q]].text == "."):
                        expr.append(toks[sig[q]].text)
                        q += 1
                    # expr ends with `. iter` ; then `( ) . enumerate ( ) {`
                    tail = [toks[j].text for j in sig[q:q + 7]]
                    if len(expr) >= 3 and expr[-2:] == [".", "iter"] and tail == ["(", ")", ".", "enumerate", "(", ")", "{"]:
                        hit = (toks[i].start, toks[sig[q + 6]].end, tx[2], tx[4], "".join(expr[:-2]))
                        break
        if not hit:
            return text
        a, b, ivar, xvar, e = hit
        nl = text[a:b].count("\n")
        text = text[:a] + f"for {ivar} in 0..{e}.len() {{ let {xvar} = &{e}[{ivar}];" + "\n" * nl + text[b:]
        counts["R11"] = counts.get("R11", 0) + 1


def rule_R12_for_ref(text: str, counts: dict) -> str:
    """R12: `for X in &E {` -> `for vidx__N in 0..E.len() { let X = &E[vidx__N];` where E is a plain place
    expression (identifiers, `self`, `.`) naming a Vec or slice: same elements by reference in the same
    order."""
    n = 0
    while True:
        toks = rustlex.lex(text)
        sig = [i for i, t in enumerate(toks) if t.kind not in ("ws", "comment", "doc")]
        hit = None
        for p, i in enumerate(sig):
            if toks[i].kind == "ident" and toks[i].text == "for" and p + 4 < len(sig):
                amp = toks[sig[p + 3]].text == "&"
                # also `for X in P {` where P is a parameter declared `P: &[T]` (iterating a shared slice
                # yields its elements by reference in order, exactly like `&E` above)
                slice_param = (not amp and toks[sig[p + 3]].kind == "ident" and toks[sig[p + 4]].text == "{"
                               and re.search(r"\b" + re.escape(toks[sig[p + 3]].text) + r"\s*:\s*&\s*\[", text[:rustlex.fn_shape(text).sig_end] if text.lstrip().startswith(("pub", "fn", "const", "async", "unsafe")) else "") is not None)
                if toks[sig[p + 1]].kind == "ident" and toks[sig[p + 2]].text == "in" and (amp or slice_param):
                    q = p + 4 if amp else p + 3
                    expr = []
                    while q < len(sig) and (toks[sig[q]].kind == "ident" or toks[sig[q]].text == "."):
                        expr.append(toks[sig[q]].text)
                        q += 1
                    if expr and expr[-1] != "." and expr[0] != "mut" and q < len(sig) and toks[sig[q]].text == "{":
                        hit = (toks[i].start, toks[sig[q]].end, toks[sig[p + 1]].text, "".join(expr))
                        break
        if not hit:
            return text
        a, b, xvar, e = hit
        n += 1
        nl = text[a:b].count("\n")
        text = text[:a] + f"for vidx__{n} in 0..{e}.len() {{ let {xvar} = &{e}[vidx__{n}];" + "\n" * nl + text[b:]
        counts["R12"] = counts.get("R12", 0) + 1


def rule_R13_for_tuple_tail(text: str, counts: dict) -> str:
    """R13: `for &(A, B) in &E[LO..] {` -> `assert(LO <= E.len()); for vtix__N in LO..E.len() { let (A, B) = E[vtix__N];`
    for a plain place expression E (Vec/slice of a Copy pair) and an integer literal LO.  The `assert` keeps
    the slice-range panic obligation of `E[LO..]` that the plain index loop would otherwise drop."""
    n = 0
    while True:
        toks = rustlex.lex(text)
        sig = [i for i, t in enumerate(toks) if t.kind not in ("ws", "comment", "doc")]
        hit = None
        for p, i in enumerate(sig):
            if toks[i].kind == "ident" and toks[i].text == "for" and p + 10 < len(sig):
                tx = [toks[j].text for j in sig[p:p + 9]]
                if tx[1] == "&" and tx[2] == "(" and tx[4] == "," and tx[6] == ")" and tx[7] == "in" and tx[8] == "&":
                    q = p + 9
                    expr = []
                    while q < len(sig) and (toks[sig[q]].kind == "ident" or toks[sig[q]].text == "."):
                        expr.append(toks[sig[q]].text)
                        q += 1
                    tail = [toks[j].text for j in sig[q:q + 6]]
                    # [ LO .. ] {      (lexer may give `..` as one or two tokens)
                    if expr and tail[:1] == ["["] and re.fullmatch(r"[0-9]+", tail[1] or ""):
                        rest = "".join(tail[2:])
                        if rest.startswith("..]{"):
                            k = q + 2
                            acc = ""
                            while acc != "..]{":
                                acc += toks[sig[k]].text
                                k += 1
                            hit = (toks[i].start, toks[sig[k - 1]].end, tx[3], tx[5], "".join(expr), tail[1])
                            break
        if not hit:
            return text
        a, b, v1, v2, e, lo = hit
        n += 1
        nl = text[a:b].count("\n")
        text = text[:a] + f"assert({lo} <= {e}.len()); for vtix__{n} in {lo}..{e}.len() {{ let ({v1}, {v2}) = {e}[vtix__{n}];" + "\n" * nl + text[b:]
        counts["R13"] = counts.get("R13", 0) + 1


def rule_R14_iter_rev(text: str, counts: dict) -> str:
    """R14: `for X in E.iter().rev() {` -> `let vrx__N = &E;` (or `= E;` when E is a call) `let mut vrix__N = vrx__N.len();
    while vrix__N > 0 { vrix__N -= 1; let X = &vrx__N[vrix__N];` for a place or accessor-call expression E
    naming a Vec/slice: same elements by reference, last to first.  (E is evaluated once, as in the
    original.)"""
    n = 0
    while True:
        toks = rustlex.lex(text)
        sig = [i for i, t in enumerate(toks) if t.kind not in ("ws", "comment", "doc")]
        hit = None
        for p, i in enumerate(sig):
            if toks[i].kind == "ident" and toks[i].text == "for" and p + 4 < len(sig):
                if toks[sig[p + 1]].kind == "ident" and toks[sig[p + 2]].text == "in":
                    q = p + 3
                    # scan forward to `{` at depth 0, collecting tokens
                    expr = []
                    depth = 0
                    while q < len(sig):
                        tt = toks[sig[q]].text
                        if tt == "{" and depth == 0:
                            break
                        if tt in ("(", "["):
                            depth += 1
                        if tt in (")", "]"):
                            depth -= 1
                        expr.append(tt)
                        q += 1
                    if q < len(sig) and len(expr) > 8 and expr[-8:] == [".", "iter", "(", ")", ".", "rev", "(", ")"]:
                        e = expr[:-8]
                        if all(re.fullmatch(r"[A-Za-z_][A-Za-z0-9_]*|\.|\(|\)", x) for x in e):
                            hit = (toks[i].start, toks[sig[q]].end, toks[sig[p + 1]].text, "".join(e))
                            break
        if not hit:
            return text
        a, b, xvar, e = hit
        n += 1
        bind = f"let vrx__{n} = {e};" if e.endswith(")") else f"let vrx__{n} = &{e};"
        nl = text[a:b].count("\n")
        text = text[:a] + f"{bind} let mut vrix__{n} = vrx__{n}.len(); while vrix__{n} > 0 {{ vrix__{n} -= 1; let {xvar} = &vrx__{n}[vrix__{n}];" + "\n" * nl + text[b:]
        counts["R14"] = counts.get("R14", 0) + 1


def rule_R15_for_mut_slice(text: str, counts: dict) -> str:
    """R15: `for X in P { .. *X .. }` where P is a parameter declared `P: &mut [T]` ->
    `for vmx__N in 0..P.len() { .. P[vmx__N] .. }`: iterating a mutable slice yields each element by
    mutable reference, in order, exactly once; every use of X in the body must be the dereference `*X`
    (otherwise the rule does not apply and Verus rejects the text -> undecided)."""
    n = 0
    while True:
        if not text.lstrip().startswith(("pub", "fn", "const", "async", "unsafe")):
            return text
        toks = rustlex.lex(text)
        sg = [i for i, t in enumerate(toks) if t.kind not in ("ws", "comment", "doc")]
        sig_text = text[:rustlex.fn_shape(text).sig_end]
        hit = None
        for p, i in enumerate(sg):
            if toks[i].kind == "ident" and toks[i].text == "for" and p + 4 < len(sg):
                x, kw, e, br = (toks[sg[p + k]] for k in (1, 2, 3, 4))
                if (x.kind == "ident" and kw.text == "in" and e.kind == "ident" and br.text == "{"
                        and re.search(r"\b" + re.escape(e.text) + r"\s*:\s*&\s*mut\s*\[", sig_text)):
                    close = rustlex.match_close(toks, sg[p + 4])
                    body = [k for k in sg if sg[p + 4] < k < close]
                    uses = [q for q, k in enumerate(body) if toks[k].kind == "ident" and toks[k].text == x.text]
                    if uses and all(q > 0 and toks[body[q - 1]].text == "*" for q in uses):
                        hit = (i, sg[p + 4], [(body[q - 1], body[q]) for q in uses], e.text)
                        break
        if not hit:
            return text
        n += 1
        i, br, uses, e = hit
        out = []
        edits = {a: (b, f"{e}[vmx__{n}]") for a, b in uses}
        k = 0
        while k < len(toks):
            if k == i:
                nl = text[toks[i].start:toks[br].end].count("\n")
                out.append(f"for vmx__{n} in 0..{e}.len() {{" + "\n" * nl)
                k = br + 1
            elif k in edits:
                b, rep = edits[k]
                out.append(rep + "\n" * text[toks[k].start:toks[b].end].count("\n"))
                k = b + 1
            else:
                out.append(toks[k].text)
                k += 1
        text = "".join(out)
        counts["R15"] = counts.get("R15", 0) + 1


def keep_attr(a: str) -> bool:
    return False


def keep_outer_attr(a: str) -> bool:
    return bool(re.match(r"#\[repr\(", a))


def rule_R4_strip(text: str, counts: dict) -> str:
    """R4: strip doc comments and outer attributes (derives are re-added as Clone/Copy only when present)."""
    derive = re.search(r"#\[derive\(([^)]*)\)\]", text)
    stripped = rustlex.strip_docs_and_attrs(text, keep_attr)
    if stripped != text:
        counts["R4"] = counts.get("R4", 0) + 1
    if derive:
        kept = [d.strip() for d in derive.group(1).split(",") if d.strip() in ("Clone", "Copy")]
        if kept:
            stripped = f"#[derive({', '.join(kept)})]\n" + stripped.lstrip("\n")
    return stripped


# ---------------------------------------------------------------------------


@dataclass
class BuiltItem:
    spec: ItemSpec
    kind: str
    name: str          # fn / type name
    impl_of: str       # "" or impl header
    repo_line: int
    sha256: str
    text: str          # final spliced text
    canary: str        # canary fn text or ""
    has_requires: bool


@dataclass
class LineOrigin:
    kind: str   # repo / vc / gen
    ref: str    # file path
    line: int
    item: str   # owning item path or section


def _name_return(sig_text: str, ret_name: str, counts: dict) -> str:
    """R6: `-> T` => `-> (r: T)` so that postconditions can name the result."""
    toks = rustlex.lex(sig_text)
    depth = 0
    arrow = None
    for i, t in enumerate(toks):
        if t.kind == "punct":
            if t.text in "([{<":
                if t.text == "<" or True:
                    depth += 1 if t.text in "([{" else 0
            if t.text in ")]}":
                depth -= 1
            if t.text == "-" and depth == 0 and i + 1 < len(toks) and toks[i + 1].text == ">":
                arrow = i
    if arrow is None:
        return sig_text
    after = toks[arrow + 1].end
    rest = sig_text[after:]
    m = re.search(r"\bwhere\b", rest)
    ty_end = m.start() if m else len(rest)
    ty = rest[:ty_end].strip()
    if ty.startswith("(") and re.match(r"\(\s*[a-z_][a-z0-9_]*\s*:", ty):
        return sig_text
    counts["R6"] = counts.get("R6", 0) + 1
    return sig_text[:after] + f" ({ret_name}: {ty}) " + rest[ty_end:]


def _stmt_anchor(text: str, shape, pat: str, n: int, after: bool):
    """offset just after the end (or just before the start) of the innermost statement containing the
    n-th token-exact occurrence of `pat` inside the function body.  Statement boundaries: `;` at the
    block's depth, or the closing brace of a block-like statement (if/match/while/for/loop/unsafe/{)."""
    ptoks = [t.text for t in rustlex.lex(pat) if t.kind != "ws"]
    toks = rustlex.lex(text)
    sg = [i for i, t in enumerate(toks) if t.kind not in ("ws", "comment", "doc") and t.start >= shape.sig_end]
    seen = 0
    hit = None
    for p in range(len(sg) - len(ptoks) + 1):
        if all(toks[sg[p + q]].text == ptoks[q] for q in range(len(ptoks))):
            seen += 1
            if seen == n:
                hit = p
                break
    if hit is None:
        return None
    # innermost enclosing '{' of the hit
    depth = 0
    q = hit - 1
    open_q = None
    while q >= 0:
        t = toks[sg[q]]
        if t.kind == "punct" and t.text in rustlex.CLOSE:
            depth += 1
        elif t.kind == "punct" and t.text in rustlex.OPEN:
            if depth == 0:
                if t.text == "{":
                    open_q = q
                    break
                # inside ( or [ : keep walking out
            else:
                depth -= 1
        q -= 1
    if open_q is None:
        return None
    close_q = sg.index(rustlex.match_close(toks, sg[open_q]))
    # split the block into statements
    q = open_q + 1
    cur = None
    while q < close_q:
        t = toks[sg[q]]
        if cur is None:
            cur = q
        end = None
        if t.kind == "punct" and t.text == ";":
            end = q
        elif t.kind == "punct" and t.text in rustlex.OPEN:
            c = sg.index(rustlex.match_close(toks, sg[q]))
            if t.text == "{":
                first = toks[sg[cur]]
                nxt = toks[sg[c + 1]] if c + 1 < close_q else None
                blocklike = (first.kind == "ident" and first.text in rustlex.BLOCKLIKE) or first.text == "{" or first.kind == "life"
                if blocklike and not (nxt is not None and ((nxt.kind == "ident" and nxt.text == "else") or (nxt.kind == "punct" and nxt.text in (".", "?", ";")))):
                    end = c
            q = c
        if end is not None:
            if cur <= hit <= end:
                return toks[sg[end]].end if after else toks[sg[cur]].start
            cur = None
        q += 1
    # tail expression containing the hit
    if cur is not None and cur <= hit:
        return None if after else toks[sg[cur]].start
    return None


def _join(section: list[tuple[int, str]]) -> str:
    return "\n".join(t for _, t in section)


class UnitBuilder:
    def __init__(self, spec: UnitSpec, repo: str):
        self.spec = spec
        self.repo = repo
        self.counts: dict[str, int] = {}
        self.items: list[BuiltItem] = []
        self.lines: list[str] = []
        self.origin: list[LineOrigin] = []
        self.fn_lines: list[tuple[int, int, str]] = []  # (first, last, item path)
        self.lost: list[str] = []
        self.force_external: dict[str, str] = {}   # item path -> reason (outside the Verus subset)

    # -- emit helpers
    def emit_gen(self, text: str, item: str = ""):
        for l in text.split("\n"):
            self.lines.append(l)
            self.origin.append(LineOrigin("gen", "", 0, item))

    def emit_vc(self, section: list[tuple[int, str]], item: str = ""):
        for ln, l in section:
            self.lines.append(l)
            self.origin.append(LineOrigin("vc", self.spec.vc_path, ln, item))

    def emit_repo(self, text: str, file: str, first_line: int, item: str):
        for k, l in enumerate(text.split("\n")):
            self.lines.append(l)
            self.origin.append(LineOrigin("repo", file, first_line + k, item))

    def build(self) -> str:
        sp = self.spec
        cache: dict[str, tuple[str, list[rustlex.Item]]] = {}
        groups: dict[str, list] = {}
        order: list[str] = []
        for ispec in sp.items:
            path = os.path.join(self.repo, ispec.file)
            if ispec.file not in cache:
                if not os.path.exists(path):
                    raise AnchorLost(f"file missing: {ispec.file}")
                src = open(path).read()
                cache[ispec.file] = (src, rustlex.parse_items(src))
            src, items = cache[ispec.file]
            try:
                it = rustlex.find_item(items, ispec.path)
            except KeyError as e:
                raise AnchorLost(str(e))
            parts = [p.strip() for p in ispec.path.split("::")]
            impl_of = ""
            if len(parts) > 1 and parts[0].startswith("impl "):
                impl_of = " ".join(parts[0][5:].split("#")[0].split())
            key = impl_of
            if key not in groups:
                groups[key] = []
                order.append(key)
            groups[key].append((ispec, it, src))
        self.emit_gen("#![allow(unused_imports, unused_variables, dead_code, unused_mut, unused_parens, unused_braces, non_snake_case)]\n#![verifier::allow(autoderive_clone_without_spec)]\nuse vstd::prelude::*;\nverus! {\n")
        self.emit_vc(sp.prelude, "prelude")
        canaries: list[tuple[str, str, str]] = []
        for key in order:
            if key:
                self.emit_gen(f"impl {key} {{")
            for ispec, it, src in groups[key]:
                mark = (len(self.lines), len(self.origin), len(self.fn_lines), len(self.items), len(canaries))
                try:
                    if ispec.path in self.force_external and it.kind == "fn" and "external_body" not in ispec.opts:
                        # second pass: Verus rejected this function's text (construct outside its subset or
                        # a type error after a code change).  Keep the rest of the unit decidable: emit it
                        # with its contract assumed and report it undecided.
                        self.lost.append(f"{ispec.path}: {self.force_external[ispec.path]}")
                        ispec2 = ItemSpec(ispec.file, ispec.path, ispec.opts + ["external_body", "drop_body"], {k: v for k, v in ispec.sections.items() if k in ("requires", "ensures")}, ispec.line)
                        self._emit_item(ispec2, it, src, canaries, key)
                        continue
                    self._emit_item(ispec, it, src, canaries, key)
                except AnchorLost as e:
                    if it.kind != "fn":
                        raise
                    # roll back and emit the function with its contract assumed (external_body):
                    # callers can still be checked; this function is reported undecided.
                    del self.lines[mark[0]:], self.origin[mark[1]:], self.fn_lines[mark[2]:], self.items[mark[3]:], canaries[mark[4]:]
                    self.lost.append(f"{ispec.path}: {e}")
                    ispec2 = ItemSpec(ispec.file, ispec.path, ispec.opts + ["external_body"], {k: v for k, v in ispec.sections.items() if k in ("requires", "ensures")}, ispec.line)
                    self._emit_item(ispec2, it, src, canaries, key)
            if key:
                # canaries of methods live in the same impl
                for k2, cname, ctext in [c for c in canaries if c[0] == key]:
                    first = len(self.lines) + 1
                    self.emit_gen(ctext, "canary:" + cname)
                    self.fn_lines.append((first, len(self.lines), "canary:" + cname))
                canaries = [c for c in canaries if c[0] != key]
                self.emit_gen("}")
        for k2, cname, ctext in canaries:
            first = len(self.lines) + 1
            self.emit_gen(ctext, "canary:" + cname)
            self.fn_lines.append((first, len(self.lines), "canary:" + cname))
        self.emit_vc(sp.postlude, "postlude")
        self.emit_gen("\n} // verus!\nfn main() {}\n")
        return "\n".join(self.lines)

    def _emit_item(self, ispec: ItemSpec, it: rustlex.Item, src: str, canaries: list, impl_key: str):
        raw = src[it.decl:it.end]
        sha = hashlib.sha256(raw.encode()).hexdigest()
        first_line = src.count("\n", 0, it.decl) + 1
        text = raw
        text = rule_R1_drop_tracing(text, self.counts)
        text = rule_R2_ref_patterns(text, self.counts)
        if it.kind == "fn":
            text = rule_R7_format(text, self.counts)
            text = rule_R10_mut_self(text, self.counts)
            text = rule_R11_enumerate(text, self.counts)
            text = rule_R12_for_ref(text, self.counts)
            text = rule_R13_for_tuple_tail(text, self.counts)
            text = rule_R14_iter_rev(text, self.counts)
            text = rule_R15_for_mut_slice(text, self.counts)
        for rule, frm, to in self.spec.rewrites:
            text = rule_R3_token_replace(text, frm, to, rule, self.counts)
        # R4 on the full item text (attributes before decl were already excluded by using it.decl)
        pre_attr = src[it.start:it.decl]
        text2 = rule_R4_strip(text, self.counts)
        for m_attr in re.finditer(r"#\[repr\([^\]]*\)\]", pre_attr):
            text2 = m_attr.group(0) + " " + text2
        derive = re.search(r"#\[derive\(([^)]*)\)\]", pre_attr)
        if derive:
            kept = [d.strip() for d in derive.group(1).split(",") if d.strip() in ("Clone", "Copy")]
            if "derive_eq" in ispec.opts:
                # the real item derives PartialEq + Eq (std's structural equality): keep them and add
                # Verus's `Structural` marker so that exec `==` means spec equality
                have = [d.strip() for d in derive.group(1).split(",")]
                if "PartialEq" not in have or "Eq" not in have:
                    raise AnchorLost(f"{ispec.path}: derive_eq requested but the item no longer derives PartialEq, Eq")
                kept = kept + ["PartialEq", "Eq", "Structural"]
            if kept and "derive_none" not in ispec.opts:
                text2 = f"#[derive({', '.join(kept)})] " + text2
        # stripping keeps line structure? strip_docs removes doc tokens but leaves the newlines after them
        text = text2
        item_id = ispec.path
        has_req = False
        canary = ""
        first_out = len(self.lines) + 1
        if it.kind == "fn":
            shape = rustlex.fn_shape(text)
            sig_text = text[:shape.sig_end]
            body = text[shape.sig_end:shape.body_close + 1]
            if "drop_body" in ispec.opts:
                # R9: only for external_body items (contract assumed, never verified): the body references
                # crates the standalone file cannot see, so it is replaced; line count preserved
                assert "external_body" in ispec.opts
                body = "{ unimplemented!() }" + "\n" * body.count("\n")
                self.counts["R9"] = self.counts.get("R9", 0) + 1
            ret = "r"
            for o in ispec.opts:
                if o.startswith("ret "):
                    ret = o[4:].strip()
            sig_text = _name_return(sig_text, ret, self.counts)
            S = ispec.sections
            has_req = bool(S.get("requires"))
            if "external_body" in ispec.opts:
                self.emit_gen("#[verifier::external_body]", item_id)
            for o in ispec.opts:
                if o.startswith("attr "):
                    self.emit_gen(f"#[{o[5:].strip()}]", item_id)
            self.emit_repo(sig_text.rstrip(), ispec.file, first_line, item_id)
            if S.get("requires"):
                self.emit_gen("    requires", item_id)
                self.emit_vc(S["requires"], item_id + "/requires")
            if S.get("ensures"):
                self.emit_gen("    ensures", item_id)
                self.emit_vc(S["ensures"], item_id + "/ensures")
            if S.get("decreases"):
                self.emit_gen("    decreases", item_id)
                self.emit_vc(S["decreases"], item_id + "/decreases")
            # body with splices: collect insertions (offset in body text -> section)
            ins: list[tuple[int, int, str]] = []  # (offset, prio, section key)
            base = shape.sig_end
            for key in S:
                if key.startswith("loop "):
                    n = int(key.split()[1])
                    if n > len(shape.loops):
                        raise AnchorLost(f"{item_id}: loop #{n} not found (function has {len(shape.loops)} loops)")
                    ins.append((shape.loops[n - 1].open - base, 0, key))
                elif key.startswith("after_loop "):
                    n = int(key.split()[1])
                    if n > len(shape.loops):
                        raise AnchorLost(f"{item_id}: loop #{n} not found")
                    ins.append((shape.loops[n - 1].close + 1 - base, 0, key))
                elif key.startswith("loop_body_start ") or key.startswith("loop_body_end "):
                    n = int(key.split()[1])
                    if n > len(shape.loops):
                        raise AnchorLost(f"{item_id}: loop #{n} not found")
                    lp = shape.loops[n - 1]
                    ins.append(((lp.open + 1 if key.startswith("loop_body_start") else lp.close) - base, 1, key))
                elif key.startswith("before_loop "):
                    n = int(key.split()[1])
                    if n > len(shape.loops):
                        raise AnchorLost(f"{item_id}: loop #{n} not found")
                    ins.append((shape.loops[n - 1].label_pos - base, 0, key))
                elif key.startswith("after_stmt ") or key.startswith("before_stmt "):
                    _, n, pat = key.split(" ", 2)
                    off = _stmt_anchor(text, shape, pat, int(n), key.startswith("after_stmt"))
                    if off is None:
                        raise AnchorLost(f"{item_id}: statement anchor #{n} `{pat}` not found")
                    ins.append((off - base, 2, key))
                elif key == "body_start":
                    ins.append((1, 0, key))
                elif key == "before_tail":
                    if shape.tail_start is None:
                        raise AnchorLost(f"{item_id}: no tail expression")
                    ins.append((shape.tail_start - base, 0, key))
                elif key == "end_of_body":
                    if shape.tail_start is not None:
                        # a unit function whose last statement is a block-like `if/match/while/for/loop`
                        # written without `;` has no value-carrying tail: the end of the body is still an anchor
                        tail_txt = text[shape.tail_start:shape.body_close].lstrip()
                        unit_fn = "->" not in sig_text
                        if not (unit_fn and re.match(r"(if|match|while|for|loop|unsafe)\b", tail_txt)):
                            raise AnchorLost(f"{item_id}: end_of_body used but function has a tail expression")
                    ins.append((shape.body_close - base, 0, key))
            ins.sort()
            # declared loops must all carry a contract if any loop exists and the fn is verified
            pos = 0
            line_no = first_line + text[:shape.sig_end].count("\n")
            for off, _, key in ins:
                chunk = body[pos:off]
                self._emit_repo_inline(chunk, ispec.file, line_no, item_id)
                line_no += chunk.count("\n")
                self.emit_gen("", item_id)
                self.emit_vc(S[key], item_id + "/" + key)
                pos = off
            chunk = body[pos:]
            self._emit_repo_inline(chunk, ispec.file, line_no, item_id)
            # canary: same signature + requires, body asserts false
            if has_req and "no_canary" not in ispec.opts and "external_body" not in ispec.opts:
                m = re.search(r"\bfn\s+([A-Za-z_][A-Za-z0-9_]*)", sig_text)
                cname = f"canary__{m.group(1)}"
                csig = sig_text[:m.start(1)] + cname + sig_text[m.end(1):]
                ctext = csig.rstrip() + "\n    requires\n" + _join(S["requires"]) + "\n{ assert(false); vstd::pervasive::unreached() }\n"
                canaries.append((impl_key, cname, ctext))
                canary = cname
        else:
            self.emit_repo(text, ispec.file, first_line, item_id)
        self.fn_lines.append((first_out, len(self.lines), item_id))
        m = re.search(r"\bfn\s+([A-Za-z_][A-Za-z0-9_]*)", text) if it.kind == "fn" else re.search(r"\b(?:struct|enum|const|static|type)\s+([A-Za-z_][A-Za-z0-9_]*)", text)
        self.items.append(BuiltItem(ispec, it.kind, m.group(1) if m else it.name, impl_key, first_line, sha, text, canary, has_req))

    def _emit_repo_inline(self, chunk: str, file: str, first_line: int, item: str):
        parts = chunk.split("\n")
        for k, l in enumerate(parts):
            if k == 0 and self.lines and self.origin[-1].kind == "repo" and False:
                self.lines[-1] += l
            else:
                self.lines.append(l)
                self.origin.append(LineOrigin("repo", file, first_line + k, item))


# ---------------------------------------------------------------------------


@dataclass
class Failure:
    function: str        # item path (or canary / prelude / postlude)
    kind: str            # verus message
    clause: str          # contract clause text (from .vc) if the primary span is in the contract
    clause_ref: str      # vc file:line
    repo_ref: str        # repo file:line the failure points at, if any
    rendered: str


@dataclass
class UnitResult:
    unit: str
    status: str                     # ok / violation / undecided
    reason: str
    verified: int
    errors: int
    functions: list[dict]
    failures: list[Failure]
    canaries_ok: int
    canaries_bad: list[str]
    rewrite_counts: dict
    items: list[dict]
    wall_s: float
    smt_ms: int
    gen_path: str
    assumptions: list[str]
    raw_stderr: str = ""
    lost: list = field(default_factory=list)


def scan_assumptions(text: str) -> list[str]:
    out = []
    for pat, label in [
        (r"\bassume\s*\(", "assume("),
        (r"\badmit\s*\(", "admit("),
        (r"external_body", "external_body"),
        (r"assume_specification", "assume_specification"),
        (r"external_type_specification", "external_type_specification"),
        (r"\baxiom\b", "axiom"),
    ]:
        for m in re.finditer(pat, text):
            line = text.count("\n", 0, m.start()) + 1
            ctx = text.split("\n")[line - 1].strip()
            # name following item if on attribute line
            nxt = ""
            if label in ("external_body", "external_type_specification"):
                rest = text[m.end():m.end() + 300]
                mm = re.search(r"\b(fn|struct)\s+([A-Za-z_][A-Za-z0-9_]*)", rest)
                nxt = f" -> {mm.group(1)} {mm.group(2)}" if mm else ""
            if label == "assume_specification":
                rest = text[m.end():m.end() + 200]
                mm = re.search(r"\[\s*([^\]]+)\]", rest)
                nxt = f" [{mm.group(1).strip()}]" if mm else ""
            out.append(f"{label}{nxt}")
    return out


def run_unit(vc_path: str, repo: str, workdir: str, rlimit: int | None = None, threads: int = 8, _force: dict | None = None) -> UnitResult:
    t0 = time.time()
    spec = parse_vc(vc_path)
    b = UnitBuilder(spec, repo)
    b.force_external = dict(_force or {})
    try:
        text = b.build()
    except AnchorLost as e:
        return UnitResult(spec.name, "undecided", f"anchor lost: {e}", 0, 0, [], [], 0, [], b.counts, [], time.time() - t0, 0, "", [])
    except rustlex.LexError as e:
        return UnitResult(spec.name, "undecided", f"lexer: {e}", 0, 0, [], [], 0, [], b.counts, [], time.time() - t0, 0, "", [])
    os.makedirs(workdir, exist_ok=True)
    crate = "vu_" + re.sub(r"[^a-z0-9_]", "_", spec.name.lower())
    gen = os.path.join(workdir, crate + ".rs")
    open(gen, "w").write(text)
    json.dump([o.__dict__ for o in b.origin], open(gen + ".linemap.json", "w"))
    cmd = ["verus", "--edition=2024", gen, "--output-json", "--time-expanded", "--error-format=json", "--num-threads", str(threads), "--multiple-errors", "20"]
    if rlimit or spec.rlimit:
        cmd += ["--rlimit", str(rlimit or spec.rlimit)]
    env = dict(os.environ)
    try:
        p = subprocess.run(cmd, capture_output=True, text=True, cwd=workdir, env=env, timeout=int(os.environ.get("VERIF_VERUS_TIMEOUT", "900")))
    except subprocess.TimeoutExpired:
        subprocess.run(["pkill", "-f", gen], check=False)
        return UnitResult(spec.name, "undecided", "verus timeout", 0, 0, [], [], 0, [], b.counts, [], time.time() - t0, 0, gen, [])
    wall = time.time() - t0
    try:
        out = json.loads(p.stdout)
    except Exception:
        out = {}
    vr = out.get("verification-results", {})
    diags = []
    for l in p.stderr.split("\n"):
        l = l.strip()
        if l.startswith("{"):
            try:
                diags.append(json.loads(l))
            except Exception:
                pass
    # per-function results
    functions = []
    smt_ms = 0
    try:
        smt = out["times-ms"]["smt"]
        smt_ms = smt.get("smt-run", 0)
        for mod in smt.get("smt-run-module-times", []):
            for f in mod.get("function-breakdown", []):
                functions.append({"function": f["function"].split("::", 1)[-1], "mode": f.get("mode:", ""), "time_us": f.get("time-micros", 0), "rlimit": f.get("rlimit", 0), "success": f.get("success", False)})
    except Exception:
        pass

    def owner(line: int) -> str:
        for a, z, name in b.fn_lines:
            if a <= line <= z:
                return name
        o = b.origin[line - 1] if 0 < line <= len(b.origin) else None
        return o.item if o else "?"

    failures: list[Failure] = []
    hard_errors: list[str] = []
    hard_owners: list[tuple[str, str]] = []
    rlimit_hit: list[str] = []
    for d in diags:
        if d.get("level") != "error":
            continue
        msg = d.get("message", "")
        if msg.startswith("aborting due to"):
            continue
        spans = d.get("spans", [])
        prim = next((s for s in spans if s.get("is_primary")), spans[0] if spans else None)
        is_verif = any(pat in msg for pat in VERIF_FAIL_PATTERNS)
        is_rlimit = any(pat in msg for pat in RLIMIT_PATTERNS)
        if is_rlimit and not is_verif:
            rlimit_hit.append(msg)
            continue
        if not is_verif:
            hard_errors.append((msg + " @ " + (f"line {prim['line_start']}: {prim['text'][0]['text'].strip() if prim and prim.get('text') else ''}" if prim else ""))[:400])
            hard_owners.append((owner(prim["line_start"]).split("/")[0] if prim else "?", msg[:160]))
            continue
        clause = clause_ref = repo_ref = ""
        fn = "?"
        for s in spans:
            ln = s["line_start"]
            if 0 < ln <= len(b.origin):
                o = b.origin[ln - 1]
                if o.kind == "vc" and (s.get("is_primary") or not clause):
                    clause = " ".join(x["text"].strip() for x in s.get("text", []))[:300]
                    clause_ref = f"{os.path.relpath(o.ref, '/verif') if o.ref.startswith('/verif') else o.ref}:{o.line}"
                if o.kind == "repo" and not repo_ref:
                    repo_ref = f"{o.ref}:{o.line}"
        # function: owner of any span inside a fn range; prefer non-primary 'at the end of function body' etc.
        owners = [owner(s["line_start"]) for s in spans]
        owners = [o for o in owners if o and o != "?"]
        # prefer exec/proof fn owners over prelude
        pref = [o for o in owners if o not in ("prelude", "postlude")]
        fn = (pref or owners or ["?"])[-1] if not prim else (owner(prim["line_start"]) if owner(prim["line_start"]) not in ("prelude", "postlude", "?") else (pref or owners or ["?"])[0])
        failures.append(Failure(fn.split("/")[0], msg, clause, clause_ref, repo_ref, d.get("rendered", "")[:3000]))

    if hard_errors:
        # isolate: if every hard error sits inside an extracted, verified (non-external) repo function,
        # re-run with those functions assumed so the other functions of the unit are still decided
        verifiable = {bi.spec.path for bi in b.items if bi.kind == "fn" and "external_body" not in bi.spec.opts}
        new_force = {o: "outside the Verus subset / type error: " + m for o, m in hard_owners if o in verifiable and o not in b.force_external}
        if new_force and all(o in verifiable for o, _ in hard_owners) and len(b.force_external) + len(new_force) <= 4:
            return run_unit(vc_path, repo, workdir, rlimit, threads, {**b.force_external, **new_force})

    canary_names = {bi.canary for bi in b.items if bi.canary}
    # also hand-written canaries in prelude/postlude: any fn named canary__*
    for m in re.finditer(r"\bfn\s+(canary__[A-Za-z0-9_]+)", text):
        canary_names.add(m.group(1))
    can_fail = set()
    real_failures = []
    for f in failures:
        if f.function.startswith("canary:") or re.search(r"canary__", f.rendered) and f.function in ("prelude", "postlude", "?"):
            nm = f.function.split(":", 1)[-1]
            can_fail.add(nm)
        else:
            real_failures.append(f)
    # function-breakdown gives authoritative per-function success
    for f in functions:
        short = f["function"].split("::")[-1]
        if short.startswith("canary__") and not f["success"]:
            can_fail.add(short)
    # hand-written canaries failing appear as failures owned by prelude: reclassify using function-breakdown
    real_failures2 = []
    for f in real_failures:
        mm = re.search(r"fn\s+(canary__[A-Za-z0-9_]+)", f.rendered)
        if mm:
            can_fail.add(mm.group(1))
            continue
        real_failures2.append(f)
    real_failures = real_failures2
    canaries_bad = sorted(canary_names - can_fail)
    # vacuity guard (a): every extracted fn that is under contract and verified (not external_body)
    # must be in Verus's per-function list with success
    ok_fns = {f["function"].split("::")[-1] for f in functions if f["success"]}
    failed_fn_names = {f.function for f in real_failures}
    missing_fns = []
    for bi in b.items:
        if bi.kind != "fn" or "external_body" in bi.spec.opts:
            continue
        if not (bi.spec.sections.get("requires") or bi.spec.sections.get("ensures")):
            continue
        if bi.name not in ok_fns and bi.spec.path not in failed_fn_names and not any(bi.spec.path in l for l in b.lost):
            missing_fns.append(bi.spec.path)
    n_can = len(canary_names)
    verified = vr.get("verified", 0)
    errors = vr.get("errors", 0)
    status, reason = "ok", ""
    if not out or (vr.get("encountered-vir-error") or hard_errors):
        status, reason = "undecided", "verus could not process the unit (outside supported subset / type error): " + "; ".join(hard_errors[:3]) + ("" if out else " | no JSON output: " + p.stderr[-500:])
    elif rlimit_hit and not real_failures:
        status, reason = "undecided", "rlimit/timeout: " + "; ".join(rlimit_hit[:3])
    elif real_failures:
        status, reason = "violation", f"{len(real_failures)} obligation(s) failed"
    elif b.lost:
        status, reason = "undecided", "anchor lost (function kept with its contract assumed, not verified): " + "; ".join(b.lost)
    elif canaries_bad:
        status, reason = "undecided", "vacuous precondition: canary verified: " + ", ".join(canaries_bad)
    elif missing_fns:
        status, reason = "undecided", "functions under contract that Verus did not report as verified: " + ", ".join(missing_fns)
    elif errors != len(can_fail):
        # errors not attributed
        status, reason = "undecided", f"unattributed verus errors: errors={errors} canaries_failed={len(can_fail)}"
    elif verified == 0:
        status, reason = "undecided", "zero obligations verified"
    items = [{"item": bi.spec.path, "file": bi.spec.file, "line": bi.repo_line, "sha256": bi.sha256, "kind": bi.kind, "external_body": "external_body" in bi.spec.opts} for bi in b.items]
    res = UnitResult(spec.name, status, reason, verified, errors, functions, real_failures, n_can - len(canaries_bad), canaries_bad, b.counts, items, wall, smt_ms, gen, scan_assumptions(text), p.stderr[-4000:] if status != "ok" else "")
    res.lost = list(b.lost)
    return res


if __name__ == "__main__":
    import sys
    r = run_unit(sys.argv[1], sys.argv[2] if len(sys.argv) > 2 else "/repo", sys.argv[3] if len(sys.argv) > 3 else "/var/tmp/vp-manual")
    d = r.__dict__.copy()
    d["failures"] = [f.__dict__ for f in r.failures]
    d.pop("raw_stderr")
    print(json.dumps(d, indent=1)[:6000])
    if r.status != "ok":
        for l in r.raw_stderr.split("\n"):
            if l.startswith("{"):
                try:
                    print(json.loads(l).get("rendered") or "")
                except Exception:
                    print(l[:300])
            else:
                print(l[:300])
