"""Small Rust-aware lexer + structural item extractor.

It is NOT a Rust parser. It knows exactly enough to (a) never be confused by
strings, chars, lifetimes, raw strings and nested comments, (b) match
brackets, (c) find items (`fn`, `struct`, `enum`, `const`, `static`, `type`,
`impl`, `mod`) at the top level of a file or directly inside an `impl` / `mod`
block, and (d) find loops and the tail expression inside a function body.

Extracted text is byte-for-byte the text in the file.
"""
from __future__ import annotations
import re
from dataclasses import dataclass, field

IDENT_RE = re.compile(r"[A-Za-z_][A-Za-z0-9_]*")
NUM_RE = re.compile(r"[0-9][A-Za-z0-9_]*(\.[0-9][A-Za-z0-9_]*)?")


@dataclass
class Tok:
    kind: str  # ws, comment, doc, str, char, life, ident, num, punct
    text: str
    start: int
    end: int


class LexError(Exception):
    pass


def lex(src: str) -> list[Tok]:
    toks: list[Tok] = []
    i, n = 0, len(src)
    while i < n:
        c = src[i]
        if c.isspace():
            j = i
            while j < n and src[j].isspace():
                j += 1
            toks.append(Tok("ws", src[i:j], i, j))
            i = j
        elif src.startswith("//", i):
            j = src.find("\n", i)
            j = n if j < 0 else j
            text = src[i:j]
            kind = "doc" if (text.startswith("///") and not text.startswith("////")) or text.startswith("//!") else "comment"
            toks.append(Tok(kind, text, i, j))
            i = j
        elif src.startswith("/*", i):
            depth, j = 1, i + 2
            while j < n and depth:
                if src.startswith("/*", j):
                    depth += 1
                    j += 2
                elif src.startswith("*/", j):
                    depth -= 1
                    j += 2
                else:
                    j += 1
            if depth:
                raise LexError("unterminated block comment")
            text = src[i:j]
            kind = "doc" if (text.startswith("/**") and not text.startswith("/***") and text != "/**/") or text.startswith("/*!") else "comment"
            toks.append(Tok(kind, text, i, j))
            i = j
        elif c == '"' or (c in "bc" and src.startswith('"', i + 1)):
            j = i + (1 if c == '"' else 2)
            while j < n and src[j] != '"':
                j += 2 if src[j] == "\\" else 1
            if j >= n:
                raise LexError("unterminated string")
            toks.append(Tok("str", src[i:j + 1], i, j + 1))
            i = j + 1
        elif (m := re.match(r'(?:b|c)?r(#*)"', src[i:i + 40])) and (c in "rbc"):
            hashes = m.group(1)
            endpat = '"' + hashes
            j = src.find(endpat, i + m.end())
            if j < 0:
                raise LexError("unterminated raw string")
            j += len(endpat)
            toks.append(Tok("str", src[i:j], i, j))
            i = j
        elif c == "'" or (c == "b" and src.startswith("'", i + 1)):
            k = i + (1 if c == "'" else 2)
            # char literal or lifetime?
            if k < n and src[k] == "\\":
                j = k + 2
                while j < n and src[j] != "'":
                    j += 1
                toks.append(Tok("char", src[i:j + 1], i, j + 1))
                i = j + 1
            elif k + 1 < n and src[k + 1] == "'":
                toks.append(Tok("char", src[i:k + 2], i, k + 2))
                i = k + 2
            elif c == "'":
                m2 = IDENT_RE.match(src, k)
                if not m2:
                    # multi-byte char literal e.g. 'é'
                    j = src.find("'", k)
                    toks.append(Tok("char", src[i:j + 1], i, j + 1))
                    i = j + 1
                else:
                    toks.append(Tok("life", src[i:m2.end()], i, m2.end()))
                    i = m2.end()
            else:
                raise LexError(f"bad byte char at {i}")
        elif m := IDENT_RE.match(src, i):
            toks.append(Tok("ident", m.group(0), i, m.end()))
            i = m.end()
        elif c.isdigit():
            m = NUM_RE.match(src, i)
            # don't swallow `0..8` as a float
            text = m.group(0)
            if "." in text and src.startswith("..", i + text.index(".")):
                text = text[: text.index(".")]
            # `1.min(2)`-style method on int: keep conservative (rare)
            toks.append(Tok("num", text, i, i + len(text)))
            i += len(text)
        else:
            toks.append(Tok("punct", c, i, i + 1))
            i += 1
    return toks


OPEN = {"(": ")", "[": "]", "{": "}"}
CLOSE = {")", "]", "}"}


def sig(toks: list[Tok]) -> list[int]:
    """Indices of significant tokens (no ws / comments / docs)."""
    return [k for k, t in enumerate(toks) if t.kind not in ("ws", "comment", "doc")]


def match_close(toks: list[Tok], k: int) -> int:
    """toks[k] is an opening bracket; return index of its closing bracket."""
    want = [OPEN[toks[k].text]]
    j = k + 1
    while j < len(toks):
        t = toks[j]
        if t.kind == "punct":
            if t.text in OPEN:
                want.append(OPEN[t.text])
            elif t.text in CLOSE:
                if t.text != want[-1]:
                    raise LexError(f"bracket mismatch at {t.start}")
                want.pop()
                if not want:
                    return j
        j += 1
    raise LexError("unclosed bracket")


ITEM_KW = {"fn", "struct", "enum", "const", "static", "type", "impl", "mod", "trait", "use", "union", "macro_rules"}
QUAL = {"pub", "async", "unsafe", "extern", "default", "const"}


@dataclass
class Item:
    kind: str            # fn / struct / enum / const / static / type / impl / mod / trait / use
    name: str            # for impl: the self type text ("InstallTag") or "Trait for Type"
    start: int           # byte offset of first token (attributes/docs included)
    decl: int            # byte offset of first non-attribute, non-doc token
    end: int             # byte offset one past the end
    body_open: int = -1  # byte offset of body '{' (fn / impl / mod / struct / enum), else -1
    children: list["Item"] = field(default_factory=list)

    def text(self, src: str) -> str:
        return src[self.start:self.end]


def _skip_angle(toks, s, p):
    """s[p] is '<' opening generics: return position after matching '>'."""
    depth = 0
    while p < len(s):
        t = toks[s[p]]
        if t.kind == "punct":
            if t.text == "<":
                depth += 1
            elif t.text == ">":
                # ignore '->' arrows
                prev = toks[s[p - 1]]
                if not (prev.kind == "punct" and prev.text == "-" and prev.end == t.start):
                    depth -= 1
                    if depth == 0:
                        return p + 1
            elif t.text in OPEN:
                p = s.index(match_close(toks, s[p]))
        p += 1
    raise LexError("unclosed generics")


def parse_items(src: str, toks: list[Tok] | None = None, lo: int = 0, hi: int | None = None) -> list[Item]:
    """Items between token indices [lo, hi) (a file, or the inside of an impl/mod block)."""
    if toks is None:
        toks = lex(src)
    if hi is None:
        hi = len(toks)
    s = [k for k in sig(toks) if lo <= k < hi]
    items: list[Item] = []
    p = 0
    while p < len(s):
        first_tok = s[p]
        # leading docs directly before (docs are non-significant; find them)
        start_tok = first_tok
        q = first_tok - 1
        while q >= lo and toks[q].kind in ("ws", "doc", "comment"):
            if toks[q].kind == "doc":
                start_tok = q
            q -= 1
        # attributes
        while p < len(s) and toks[s[p]].text == "#":
            nxt = p + 1
            if toks[s[nxt]].text == "!":
                nxt += 1
            if toks[s[nxt]].text != "[":
                break
            p = s.index(match_close(toks, s[nxt])) + 1
        if p >= len(s):
            break
        decl_tok = s[p]
        # qualifiers
        while p < len(s) and toks[s[p]].kind == "ident" and toks[s[p]].text in QUAL:
            t = toks[s[p]]
            if t.text == "const":
                # `const fn` vs `const NAME`
                nx = toks[s[p + 1]]
                if not (nx.kind == "ident" and nx.text in ("fn", "unsafe", "async", "extern")):
                    break
            p += 1
            if t.text == "pub" and toks[s[p]].text == "(":
                p = s.index(match_close(toks, s[p])) + 1
            if t.text == "extern" and toks[s[p]].kind == "str":
                p += 1
        if p >= len(s):
            break
        kw = toks[s[p]]
        if not (kw.kind == "ident" and kw.text in ITEM_KW):
            # not an item start (e.g. macro invocation at item level); skip to ';' or block end
            while p < len(s):
                t = toks[s[p]]
                if t.kind == "punct" and t.text in OPEN:
                    close = match_close(toks, s[p])
                    p = s.index(close) + 1
                    if t.text == "{":
                        break
                    continue
                p += 1
                if t.kind == "punct" and t.text == ";":
                    break
            continue
        kind = kw.text
        p += 1
        name = ""
        body_open = -1
        if kind == "macro_rules":
            p += 1  # '!'
            name = toks[s[p]].text
        if kind == "impl":
            if toks[s[p]].text == "<":
                p = _skip_angle(toks, s, p)
            # collect header text up to '{' (skipping where-clause)
            hstart = toks[s[p]].start
            q2 = p
            while not (toks[s[q2]].kind == "punct" and toks[s[q2]].text == "{"):
                if toks[s[q2]].text == "<":
                    q2 = _skip_angle(toks, s, q2)
                    continue
                q2 += 1
            header = src[hstart:toks[s[q2]].start]
            header = re.split(r"\bwhere\b", header)[0]
            name = " ".join(header.split())
            p = q2
        elif kind not in ("use", "macro_rules"):
            name = toks[s[p]].text
            p += 1
        # find end: first '{' at depth 0 => matching '}', or ';'
        end_tok = None
        while p < len(s):
            t = toks[s[p]]
            if t.kind == "punct":
                if t.text == "<" and kind in ("fn", "struct", "enum", "type", "trait", "union") and toks[s[p - 1]].kind == "ident" and False:
                    pass
                if t.text == "{":
                    body_open = t.start
                    close = match_close(toks, s[p])
                    end_tok = close
                    # `struct X { } ;`? no. `const X: T = { .. };` -> continue to ';'
                    if kind in ("const", "static", "type", "use"):
                        p = s.index(close) + 1
                        body_open = -1
                        continue
                    break
                if t.text in ("(", "["):
                    p = s.index(match_close(toks, s[p])) + 1
                    continue
                if t.text == ";":
                    end_tok = s[p]
                    break
            p += 1
        if end_tok is None:
            raise LexError(f"item {kind} {name} has no end")
        it = Item(kind, name, toks[start_tok].start, toks[decl_tok].start, toks[end_tok].end, body_open)
        if kind in ("impl", "mod", "trait") and body_open >= 0:
            open_idx = next(k for k in s if toks[k].start == body_open)
            it.children = parse_items(src, toks, open_idx + 1, end_tok)
        items.append(it)
        p = s.index(end_tok) + 1
    return items


def find_item(items: list[Item], path: str) -> Item:
    """path: 'fn name' | 'struct Name' | 'impl Type::fn name' | 'mod m::fn f' | 'impl Type#2::fn x' (2nd impl block)."""
    parts = [p.strip() for p in path.split("::")]
    cur = items
    it = None
    for part in parts:
        kind, _, name = part.partition(" ")
        ordinal = 1
        if "#" in name:
            name, _, o = name.partition("#")
            ordinal = int(o)
        name = " ".join(name.split())
        cands = [x for x in cur if x.kind == kind and x.name == name]
        if kind == "impl" and ordinal == 1 and len(parts) > 1 and len(cands) > 1:
            # pick the impl block that contains the child
            ck, _, cn = parts[parts.index(part) + 1].partition(" ")
            cands = [x for x in cands if any(c.kind == ck and c.name == cn for c in x.children)] or cands
        if len(cands) < ordinal:
            raise KeyError(f"anchor lost: {path} ({part} not found)")
        it = cands[ordinal - 1]
        cur = it.children
    return it


# ---------------------------------------------------------------------------
# inside a function


@dataclass
class Loop:
    kw: str         # while / for / loop
    kw_pos: int     # offset of keyword (relative to fn text)
    label_pos: int  # offset of label start if labelled, else kw_pos
    open: int       # offset of '{'
    close: int      # offset of matching '}'


@dataclass
class FnShape:
    sig_end: int          # offset of body '{' in fn text
    body_close: int       # offset of final '}'
    loops: list[Loop]
    tail_start: int | None  # offset where tail expression starts, None if no tail expr
    has_tail: bool


BLOCKLIKE = {"if", "match", "while", "for", "loop", "unsafe"}


def fn_shape(text: str) -> FnShape:
    toks = lex(text)
    s = sig(toks)
    # body open = first '{' at depth 0 after 'fn'
    p = 0
    while toks[s[p]].text != "fn":
        p += 1
    while True:
        t = toks[s[p]]
        if t.kind == "punct" and t.text == "{":
            break
        if t.kind == "punct" and t.text in ("(", "["):
            p = s.index(match_close(toks, s[p])) + 1
            continue
        p += 1
    open_i = s[p]
    close_i = match_close(toks, open_i)
    loops: list[Loop] = []
    q = p + 1
    endp = s.index(close_i)
    while q < endp:
        t = toks[s[q]]
        if t.kind == "ident" and t.text in ("while", "for", "loop"):
            # 'for' in `for<'a>` HRTB or `impl X for Y` cannot appear inside a body in the subset
            r = q + 1
            while True:
                u = toks[s[r]]
                if u.kind == "punct" and u.text == "{":
                    break
                if u.kind == "punct" and u.text in ("(", "["):
                    r = s.index(match_close(toks, s[r])) + 1
                    continue
                r += 1
            o = s[r]
            c = match_close(toks, o)
            label = t.start
            if q >= 2 and toks[s[q - 1]].text == ":" and toks[s[q - 2]].kind == "life":
                label = toks[s[q - 2]].start
            loops.append(Loop(t.text, t.start, label, toks[o].start, toks[c].start))
        q += 1
    # tail expression: walk depth-1 statements
    q = p + 1
    stmt_start = None
    last_stmt_end_tok = open_i
    cur_start = None
    tail_start = None
    while q < endp:
        t = toks[s[q]]
        if cur_start is None:
            cur_start = q
        if t.kind == "punct" and t.text == ";":
            cur_start = None
            q += 1
            continue
        if t.kind == "punct" and t.text in OPEN:
            c = match_close(toks, s[q])
            cq = s.index(c)
            if t.text == "{":
                first = toks[s[cur_start]]
                # block-like statement ends at its closing brace unless followed by else / . / ? / operator
                nxt = toks[s[cq + 1]] if cq + 1 < endp else None
                starts_blocklike = (first.kind == "ident" and first.text in BLOCKLIKE) or first.text == "{" or first.kind == "life"
                if starts_blocklike and nxt is not None and not (nxt.kind == "ident" and nxt.text == "else") and not (nxt.kind == "punct" and nxt.text in (".", "?")):
                    cur_start = None
                    q = cq + 1
                    continue
            q = cq + 1
            continue
        q += 1
    if cur_start is not None:
        tail_start = toks[s[cur_start]].start
    return FnShape(toks[open_i].start, toks[close_i].start, loops, tail_start, tail_start is not None)


def strip_docs_and_attrs(text: str, keep_attr=lambda a: False) -> str:
    """R4: remove doc comments and (non-kept) outer attributes everywhere in `text`."""
    toks = lex(text)
    out = []
    k = 0
    while k < len(toks):
        t = toks[k]
        if t.kind == "doc":
            k += 1
            continue
        if t.kind == "punct" and t.text == "#":
            # attribute?
            j = k + 1
            while j < len(toks) and toks[j].kind == "ws":
                j += 1
            if j < len(toks) and toks[j].text == "[":
                c = match_close(toks, j)
                attr = text[t.start:toks[c].end]
                if keep_attr(attr):
                    out.append(attr)
                k = c + 1
                continue
        out.append(t.text)
        k += 1
    return "".join(out)
