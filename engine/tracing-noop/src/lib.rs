//! Stand-in for the `tracing` crate used ONLY inside Kani overlays: any reachable
//! tracing macro crashes kani-compiler 0.68 (ICE intrinsics.rs:243).  The macros
//! type-check their format arguments and do nothing.  Assumption recorded in the
//! evidence: logging does not affect program state.
#[macro_export]
macro_rules! trace { ($($arg:tt)*) => { if false { let _ = ::core::format_args!($($arg)*); } }; }
#[macro_export]
macro_rules! debug { ($($arg:tt)*) => { if false { let _ = ::core::format_args!($($arg)*); } }; }
#[macro_export]
macro_rules! info { ($($arg:tt)*) => { if false { let _ = ::core::format_args!($($arg)*); } }; }
#[macro_export]
macro_rules! warn { ($($arg:tt)*) => { if false { let _ = ::core::format_args!($($arg)*); } }; }
#[macro_export]
macro_rules! error { ($($arg:tt)*) => { if false { let _ = ::core::format_args!($($arg)*); } }; }
