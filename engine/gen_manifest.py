#!/usr/bin/env python3
"""Regenerate /verif/MANIFEST.json from contracts/registry.toml + contracts/manifest_meta.toml."""
import json, os, tomllib
VERIF = os.path.dirname(os.path.dirname(os.path.abspath(__file__)))
reg = tomllib.load(open(os.path.join(VERIF, "contracts", "registry.toml"), "rb"))
meta = tomllib.load(open(os.path.join(VERIF, "contracts", "manifest_meta.toml"), "rb"))
checks = []
for pid in sorted(reg["property"]):
    P = reg["property"][pid]
    m = meta["check"][pid]
    checks.append({
        "property_id": pid,
        "quick_cmd": f"./check {pid} --tier quick",
        "thorough_cmd": f"./check {pid} --tier thorough",
        "evidence_file": f"/verif/evidence/{pid}.json",
        "replay_cmd_template": f"./check {pid} --replay {{path}}",
        "engine": "contracts",
        "level_claimed": {"category": P.get("level", "proof"), "text": m["level_text"], "design_ref": m["design_ref"]},
        "level_note": m["level_note"],
        "technique": m["technique"],
    })
man = {
    "version": 1,
    "setup_cmd": "sh ./setup.sh",
    "hooks": {
        "guard": "kani",
        "enable": "cfg(kani) is set only by the Kani compiler; contracts are added as #[cfg_attr(kani, ...)] attributes and an appended #[cfg(kani)] module in a scratch overlay of /repo (never in /repo itself); the Verus route extracts source text and needs no hook",
        "baseline_off_cmd": "cd /repo && cargo test --workspace --no-fail-fast --offline",
        "source_commits": [],
        "add_only": True,
    },
    "engines": [{"name": "contracts", "path": "/verif/engine", "serves_properties": sorted(reg["property"]), "kind_free_text": "contract-based deductive verification of the real code: Verus (extract+splice, unbounded) and Kani function contracts / complete harnesses (overlay, add-only); bounded Kani harnesses only as labelled stand-ins"}],
    "checks": checks,
    "notes": meta.get("notes", ""),
    "not_applicable": [{"property_id": k, "reason": v} for k, v in sorted(meta["not_applicable"].items())],
}
json.dump(man, open(os.path.join(VERIF, "MANIFEST.json"), "w"), indent=1)
print("wrote MANIFEST.json with", len(checks), "checks,", len(man["not_applicable"]), "not_applicable")
