"""Kani route: overlay of /repo outside /repo and /verif, add-only annotation
in place (cfg_attr(kani, ...) contract attributes before anchored fns + an
appended `#[cfg(kani)] mod` holding spec fns and harnesses), `cargo kani`, and
result parsing.

Unit description: /verif/contracts/kani/<unit>.toml

  unit = "salsa20"; property = "C09"; crate = "cascette-crypto"
  [[file]]            target = "crates/.../salsa20.rs"; harness = "salsa20.rs" (text appended to target)
  [[annotate]]        file = "...", anchor = "impl Salsa20Cipher::fn quarter_round", attrs = ["kani::requires(..)", ...]
  [[harness]]         name, tier (quick|thorough), kind (contract|complete|bounded), bound = "...",
                      obligation = "...", timeout = 300, property = override
"""
from __future__ import annotations
import hashlib
import json
import os
import re
import shutil
import subprocess
import time
import tomllib
from dataclasses import dataclass, field

import rustlex

ENGINE_DIR = os.path.dirname(os.path.abspath(__file__))


class AnchorLost(Exception):
    pass


@dataclass
class HarnessResult:
    name: str
    kind: str
    obligation: str
    bound: str
    status: str            # success / failure / undecided / vacuous
    reason: str
    time_s: float
    checks_total: int = 0
    checks_failed: list[str] = field(default_factory=list)
    cover_ok: bool | None = None
    output_tail: str = ""
    stubs: list[str] = field(default_factory=list)
    property: str = ""


class Overlay:
    def __init__(self, repo: str, root: str):
        self.repo = repo
        self.root = root
        self.dir = os.path.join(root, "repo")
        os.makedirs(root, exist_ok=True)
        subprocess.run(["rsync", "-a", "--delete", "--exclude", "/target", "--exclude", ".git", repo.rstrip("/") + "/", self.dir + "/"], check=True)
        os.makedirs(os.path.join(self.dir, ".cargo"), exist_ok=True)
        with open(os.path.join(self.dir, ".cargo", "config.toml"), "a") as f:
            f.write("\n[net]\noffline = true\n")
        self.diff_stats: dict[str, dict] = {}
        self.annotated: list[dict] = []

    def cleanup(self):
        shutil.rmtree(self.root, ignore_errors=True)

    def apply_unit(self, unit: dict, contracts_dir: str):
        # group insertions per file
        per_file: dict[str, list[tuple[int, str]]] = {}
        srcs: dict[str, str] = {}
        items_cache: dict[str, list] = {}

        def load(f):
            if f not in srcs:
                p = os.path.join(self.dir, f)
                if not os.path.exists(p):
                    raise AnchorLost(f"file missing: {f}")
                srcs[f] = open(p).read()
                items_cache[f] = rustlex.parse_items(srcs[f])
            return srcs[f], items_cache[f]

        for a in unit.get("annotate", []):
            src, items = load(a["file"])
            try:
                it = rustlex.find_item(items, a["anchor"])
            except KeyError as e:
                raise AnchorLost(str(e))
            indent = re.search(r"[ \t]*$", src[:it.decl]).group(0)
            text = "".join(f"#[cfg_attr(kani, {attr})]\n{indent}" for attr in a["attrs"])
            per_file.setdefault(a["file"], []).append((it.decl, text))
            raw = src[it.decl:it.end]
            self.annotated.append({"item": a["anchor"], "file": a["file"], "line": src.count("\n", 0, it.decl) + 1, "sha256": hashlib.sha256(raw.encode()).hexdigest(), "contract": a["attrs"]})
        for a in unit.get("under_test", []):
            # functions exercised by harnesses without attributes: recorded for evidence + anchor check
            src, items = load(a["file"])
            for anchor in a["anchors"]:
                try:
                    it = rustlex.find_item(items, anchor)
                except KeyError as e:
                    raise AnchorLost(str(e))
                raw = src[it.decl:it.end]
                self.annotated.append({"item": anchor, "file": a["file"], "line": src.count("\n", 0, it.decl) + 1, "sha256": hashlib.sha256(raw.encode()).hexdigest(), "contract": []})
        for f in unit.get("file", []):
            src, _ = load(f["target"])
            htext = open(os.path.join(contracts_dir, f["harness"])).read()
            per_file.setdefault(f["target"], []).append((len(src), "\n" + htext + "\n"))
        for f in unit.get("crate_attr", []):
            src, _ = load(f["file"])
            # inner attributes must come first in the file but after leading inner docs: insert at the first non-doc, non-inner-attr item
            toks = rustlex.lex(src)
            pos = 0
            k = 0
            while k < len(toks):
                t = toks[k]
                if t.kind in ("ws", "comment", "doc"):
                    k += 1
                    continue
                if t.text == "#" and k + 1 < len(toks) and toks[k + 1].text == "!":
                    c = rustlex.match_close(toks, k + 2)
                    k = c + 1
                    continue
                pos = t.start
                break
            per_file.setdefault(f["file"], []).append((pos, "".join(a + "\n" for a in f["attrs"])))
        for f, inss in per_file.items():
            src = srcs[f]
            added = 0
            for off, text in sorted(inss, key=lambda x: -x[0]):
                src = src[:off] + text + src[off:]
                added += text.count("\n")
            open(os.path.join(self.dir, f), "w").write(src)
            st = self.diff_stats.setdefault(f, {"lines_added": 0, "lines_removed": 0})
            st["lines_added"] += added
            srcs[f] = src
            items_cache.pop(f, None)
        for d in unit.get("dep_rewrite", []):
            p = os.path.join(self.dir, d["file"])
            s = open(p).read()
            if d["to"] in s:
                continue
            if d["from"] not in s:
                raise AnchorLost(f"dependency line not found in {d['file']}: {d['from']}")
            s = s.replace(d["from"], d["to"])
            open(p, "w").write(s)
            self.diff_stats.setdefault(d["file"], {"lines_added": 0, "lines_removed": 0})["dep_rewrite"] = d["to"]


CHECK_RE = re.compile(r"^Check (\d+): (.*)$")


def parse_kani_output(text: str) -> dict:
    """Parse regular-format Kani output for one harness."""
    res = {"verdict": None, "checks": 0, "failed": [], "cover_sat": None, "cover_total": 0, "stubs": [], "unwind_fail": False, "cbmc_crash": False, "time": None, "unsupported": []}
    lines = text.split("\n")
    cur = None
    for i, l in enumerate(lines):
        m = CHECK_RE.match(l.strip())
        if m:
            cur = {"name": m.group(2), "status": None, "desc": "", "loc": ""}
            res["checks"] += 1
            continue
        ls = l.strip()
        if cur is not None:
            if ls.startswith("- Status:"):
                cur["status"] = ls.split(":", 1)[1].strip()
            elif ls.startswith("- Description:"):
                cur["desc"] = ls.split(":", 1)[1].strip()
            elif ls.startswith("- Location:"):
                cur["loc"] = ls.split(":", 1)[1].strip()
                if cur["status"] == "FAILURE":
                    res["failed"].append(f"{cur['name']}: {cur['desc']} @ {cur['loc']}")
                    if "unwinding assertion" in cur["desc"]:
                        res["unwind_fail"] = True
                if cur["status"] in ("SATISFIED", "UNSATISFIABLE", "UNREACHABLE") and ".cover." in cur["name"]:
                    res["cover_total"] += 1
                    if cur["status"] == "SATISFIED":
                        res["cover_sat"] = (res["cover_sat"] or 0) + 1
                cur = None
        if ls.startswith("VERIFICATION:-"):
            res["verdict"] = ls.split(":-", 1)[1].strip()
        if "- Stub:" in ls or ls.startswith("Stub:"):
            res["stubs"].append(ls)
        if "CBMC failed" in ls or "CBMC timed out" in ls or "Killed" in ls or "out of memory" in ls.lower():
            res["cbmc_crash"] = True
        m2 = re.match(r"Verification Time: ([0-9.]+)s", ls)
        if m2:
            res["time"] = float(m2.group(1))
        if "unsupported" in ls.lower() and "Status: FAILURE" not in ls:
            pass
    return res


def _run_harness(base, h, ov, env, logdir, tier, group, keep):
    th = time.time()
    cmd = base + ["--harness", h["name"], "--exact"] + h.get("flags", [])
    log = os.path.join(logdir, re.sub(r"[^A-Za-z0-9_]", "_", h["name"]) + ".log")
    to = h.get("timeout", 600)
    timed_out = False
    with open(log, "w") as lf:
        pr = subprocess.Popen(cmd, cwd=ov.dir, env=env, stdout=lf, stderr=subprocess.STDOUT, start_new_session=True)
        try:
            rc = pr.wait(timeout=to)
        except subprocess.TimeoutExpired:
            timed_out = True
            rc = -1
            try:
                os.killpg(pr.pid, 9)
            except ProcessLookupError:
                pass
            pr.wait()
    txt = open(log, errors="replace").read()
    txt = "\n".join(l[:2000] for l in txt.split("\n"))
    pr_ = parse_kani_output(txt)
    hr = HarnessResult(h["name"], h.get("kind", "bounded"), h.get("obligation", ""), h.get("bound", ""), "undecided", "", round(time.time() - th, 1), pr_["checks"], pr_["failed"], None, "", pr_["stubs"], h.get("property", ""))
    real_fail = [f for f in pr_["failed"] if "unwinding assertion" not in f]
    if timed_out:
        hr.status, hr.reason = "undecided", f"timeout after {to}s"
    elif pr_["verdict"] == "SUCCESSFUL" and rc == 0:
        if pr_["cover_total"] and (pr_["cover_sat"] or 0) < pr_["cover_total"]:
            hr.status, hr.reason = "vacuous", f"cover: {pr_['cover_sat'] or 0}/{pr_['cover_total']} satisfied"
        elif pr_["cover_total"] == 0:
            hr.status, hr.reason = "vacuous", "no kani::cover! in harness (vacuity guard missing)"
        else:
            hr.status = "success"
        hr.cover_ok = bool(pr_["cover_total"]) and pr_["cover_sat"] == pr_["cover_total"]
    elif pr_["verdict"] == "FAILED" and real_fail:
        hr.status, hr.reason = "failure", "; ".join(real_fail[:5])
    elif pr_["verdict"] == "FAILED" and pr_["unwind_fail"]:
        hr.status, hr.reason = "undecided", "unwinding assertion failed (bound too small for this code)"
    else:
        hr.status, hr.reason = "undecided", f"no verdict with failed checks (rc={rc}, verdict={pr_['verdict']}, crash={pr_['cbmc_crash']})"
    if hr.status != "success":
        # keep the informative part: failed checks + summary
        keep_lines = []
        lines = txt.split("\n")
        for i, l in enumerate(lines):
            if "Status: FAILURE" in l:
                keep_lines += lines[max(0, i - 1):i + 3]
        hr.output_tail = "\n".join(keep_lines)[-3000:] + "\n...\n" + txt[-1500:]
    d = hr.__dict__
    if hr.status == "failure":
        if pr_["stubs"]:
            # concrete playback runs the harness natively WITHOUT stubs: its outcome says nothing here
            d["playback"] = {"reproduced": False, "values": "", "playback_output": "not replayed natively: the harness uses stubs (" + "; ".join(x.strip() for x in pr_["stubs"]) + ") which concrete playback does not apply; CBMC's trace is in the log"}
        else:
            d["playback"] = concrete_playback(base, h, ov, env, logdir)
    if keep or hr.status != "success":
        dst = "/verif/replays/logs"
        os.makedirs(dst, exist_ok=True)
        shutil.copy(log, os.path.join(dst, f"{group}-{os.path.basename(log)}"))
    return d


def concrete_playback(base, h, ov, env, logdir) -> dict:
    """Ask Kani for concrete values of every kani::any() on the failing harness, then replay them
    natively (cargo kani playback) against the real code in the overlay."""
    res = {"reproduced": False, "values": "", "playback_output": ""}
    try:
        cmd = base + ["--harness", h["name"], "--exact", "-Z", "concrete-playback", "--concrete-playback=print"] + h.get("flags", [])
        p = subprocess.run(cmd, cwd=ov.dir, env=env, capture_output=True, text=True, timeout=max(h.get("timeout", 600), 300), start_new_session=True)
        out = p.stdout
        m = re.search(r"```\n(.*?)```", out, re.S)
        if not m:
            res["playback_output"] = "kani produced no concrete playback test"
            return res
        test = m.group(1)
        res["values"] = test[:6000]
        tname = re.search(r"fn (kani_concrete_playback_[A-Za-z0-9_]+)", test)
        if not tname:
            return res
        # place the test inside the harness module of the overlay file that defines the harness
        modname = h["name"].split("::")[-2]
        target = None
        for root, _, files in os.walk(os.path.join(ov.dir, "crates")):
            for fn in files:
                if fn.endswith(".rs"):
                    fp = os.path.join(root, fn)
                    s = open(fp).read()
                    if f"mod {modname} " in s or f"mod {modname}{{" in s:
                        target = fp
        if not target:
            return res
        s = open(target).read()
        idx = s.rindex("}")
        s = s[:idx] + "\n" + test + "\n}" + s[idx + 1:]
        open(target, "w").write(s)
        crate = base[base.index("-p") + 1]
        cmd = ["cargo", "kani", "playback", "-Z", "concrete-playback", "-p", crate, "--", tname.group(1)]
        p2 = subprocess.run(cmd, cwd=ov.dir, env=env, capture_output=True, text=True, timeout=1200, start_new_session=True)
        o2 = (p2.stdout + p2.stderr)
        res["playback_output"] = o2[-3000:]
        res["reproduced"] = ("panicked at" in o2) and ("FAILED" in o2 or "failed" in o2)
        res["cmd"] = " ".join(cmd)
    except Exception as e:  # noqa: BLE001
        res["playback_output"] += f"\nplayback error: {e!r}"
    return res


def run_units(unit_paths: list[str], repo: str, tier: str, workroot: str, pid: str = "", jobs: int = 8, keep: bool = False, only: list[str] | None = None) -> list[dict]:
    """Group units by crate: one overlay + one build per crate, all harnesses in parallel."""
    units = [(p, tomllib.load(open(p, "rb"))) for p in unit_paths]
    groups: dict[str, list] = {}
    for p, u in units:
        groups.setdefault(u["crate"], []).append((p, u))
    results = []
    for crate, us in groups.items():
        t0 = time.time()
        out = {"group": crate, "units": [u["unit"] for _, u in us], "status": "ok", "reason": "", "harnesses": [], "annotated": [], "overlay_diff": {}, "build_s": 0.0, "wall_s": 0.0, "cmd": "", "assumptions": []}
        results.append(out)
        ov = None
        try:
            try:
                ov = Overlay(repo, os.path.join(workroot, f"kani-{crate}"))
                for p, u in us:
                    ov.apply_unit(u, os.path.dirname(p))
            except AnchorLost as e:
                out["status"], out["reason"] = "undecided", f"anchor lost: {e}"
                continue
            except rustlex.LexError as e:
                out["status"], out["reason"] = "undecided", f"lexer: {e}"
                continue
            out["annotated"] = ov.annotated
            out["overlay_diff"] = ov.diff_stats
            harnesses = []
            flags = []
            for _, u in us:
                for h in u.get("harness", []):
                    if pid and h.get("property", u.get("property", "")) not in (pid, ""):
                        # a unit may serve several properties; a harness is run for the property it names
                        if pid not in h.get("also", []):
                            continue
                    if tier != "thorough" and h.get("tier", "quick") != "quick":
                        continue
                    if tier == "thorough" and h.get("tier", "quick") == "quick-only":
                        continue
                    if only and not any(o in h["name"] for o in only):
                        continue
                    hh = dict(h)
                    hh.setdefault("property", u.get("property", ""))
                    harnesses.append(hh)
                for f in u.get("kani_flags", []):
                    if f not in flags:
                        flags.append(f)
                out["assumptions"] += [f"kani/{u['unit']}: {a}" for a in u.get("assumptions", [])]
            if not harnesses:
                continue
            logdir = os.path.join(ov.root, "logs")
            os.makedirs(logdir, exist_ok=True)
            base = ["cargo", "kani", "-p", crate, "-Z", "function-contracts", "-Z", "stubbing"] + flags
            out["cmd"] = " ".join(base) + " --harness <name> --exact"
            env = dict(os.environ)
            env["CARGO_NET_OFFLINE"] = "true"
            env.pop("RUSTUP_TOOLCHAIN", None)
            env.pop("RUSTFLAGS", None)
            tb = time.time()
            p = subprocess.run(base + ["--only-codegen"] + sum((["--harness", h["name"]] for h in harnesses), []), cwd=ov.dir, env=env, capture_output=True, text=True, timeout=3600)
            out["build_s"] = round(time.time() - tb, 1)
            if p.returncode != 0:
                out["status"] = "undecided"
                errs = [l for l in (p.stdout + p.stderr).split("\n") if l.startswith("error")]
                out["reason"] = "kani build failed (code under contract no longer compiles with its contract, or tool error): " + " | ".join(errs[:6]) + " ... " + (p.stdout + p.stderr)[-1200:]
                continue
            from concurrent.futures import ThreadPoolExecutor
            with ThreadPoolExecutor(max_workers=jobs) as ex:
                out["harnesses"] = list(ex.map(lambda h: _run_harness(base, h, ov, env, logdir, tier, crate, keep), harnesses))
            if any(r["status"] == "failure" for r in out["harnesses"]):
                out["status"] = "violation"
            elif any(r["status"] != "success" for r in out["harnesses"]):
                out["status"] = "undecided"
        finally:
            out["wall_s"] = round(time.time() - t0, 1)
            if ov is not None and not keep:
                ov.cleanup()
    return results


if __name__ == "__main__":
    import sys
    dev = os.environ.get("VERIF_DEV")
    tier = sys.argv[2] if len(sys.argv) > 2 else "quick"
    only = sys.argv[3:] or None
    rs = run_units(sys.argv[1].split(","), "/repo", tier, (dev if dev.startswith("/") else "/var/tmp/vp-dev") if dev else f"/var/tmp/vp-manual-{os.getpid()}", only=only, keep=bool(dev))
    for r in rs:
        for h in r["harnesses"]:
            print(f"{h['status']:10} {h['time_s']:7.1f}s {h['name']}  {h['reason'][:300]}")
            if h.get("playback"):
                print("   playback reproduced:", h["playback"]["reproduced"])
        print(r["group"], r["status"], r["reason"][:1500], "build", r["build_s"], "wall", r["wall_s"])
