#!/bin/sh
# Nothing to build: the engine is Python 3 (stdlib only) and drives the pre-installed verus / cargo-kani.
set -e
command -v verus >/dev/null
command -v cargo-kani >/dev/null
python3 -c 'import tomllib'
mkdir -p /verif/evidence /verif/replays
echo "setup ok"
