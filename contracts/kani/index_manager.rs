// ---------------------------------------------------------------------------
// appended by /verif (Kani route) — add-only, compiled only under cfg(kani)
#[cfg(kani)]
mod verif_kani_index_manager {
    use super::*;
    use crate::index::update::{ENTRIES_PER_PAGE, UpdatePage};

    pub fn empty_format(_args: core::fmt::Arguments<'_>) -> String {
        String::new()
    }

    /// I/O assumed to succeed (the persistence half of C05 is out of reach of both verifiers)
    fn save_index_ok(_id: u8, _index: &IndexFile, _path: &Path) -> Result<()> {
        Ok(())
    }

    fn hdr(bucket: u8) -> IndexHeader {
        IndexHeader { data_size: 16, data_hash: 0, version: 7, bucket, unused: 0, length_size: 4, location_size: 5, key_size: 9, segment_bits: 30 }
    }

    fn key16(k9: [u8; 9]) -> EncodingKey {
        let mut b = [0u8; 16];
        let mut i = 0;
        while i < 9 {
            b[i] = k9[i];
            i += 1;
        }
        EncodingKey::from_bytes(b)
    }

    /// one bucket; sorted section holds `target` (if in_sorted); the update section (capacity one
    /// page = 21 entries, the real ENTRIES_PER_PAGE) holds `fill` entries for `other`
    fn manager(target: [u8; 9], in_sorted: bool, other: [u8; 9], fill: usize) -> (IndexManager, u8) {
        let bucket = IndexManager::get_bucket_index(&target);
        let mut page = UpdatePage::new();
        let mut i = 0;
        while i < fill {
            page.push(UpdateEntry::new(other, ArchiveLocation { archive_id: 1, archive_offset: i as u32 }, 10, UpdateStatus::Normal));
            i += 1;
        }
        let mut us = UpdateSection::new();
        us.verif_set(if fill == 0 { Vec::new() } else { vec![page] }, 1);
        let entries = if in_sorted { vec![IndexEntry::new(target, 2, 200, 20)] } else { Vec::new() };
        let mut indices = BTreeMap::new();
        indices.insert(bucket, IndexFile { header: hdr(bucket), entries, update_section: us });
        (IndexManager { indices, base_path: PathBuf::new() }, bucket)
    }

    /// C05 (bounded): remove_entry's boolean tells the truth, also when the update section is full:
    /// true => the key is gone afterwards; false => the key's visibility is unchanged
    #[kani::proof]
    #[kani::unwind(23)]
    #[kani::stub(alloc::fmt::format, empty_format)]
    #[kani::stub(IndexManager::save_index, save_index_ok)]
    fn remove_entry_truthful_bounded() {
        let target: [u8; 9] = [7, 0, 0, 0, 0, 0, 0, 0, 1];
        let other: [u8; 9] = [7, 0, 0, 0, 0, 0, 0, 0, 2];
        let in_sorted: bool = kani::any();
        let full: bool = kani::any();
        let (mut m, _b) = manager(target, in_sorted, other, if full { ENTRIES_PER_PAGE } else { 3 });
        let k = key16(target);
        let before = m.lookup(&k).is_some();
        assert!(before == in_sorted);
        let r = m.remove_entry(&k);
        let after = m.lookup(&k).is_some();
        assert!(r == before, "remove_entry returns whether the key was present");
        assert!(!(r && after), "remove_entry returned true but the key is still found");
        assert!(r || after == before);
        assert!(m.lookup(&key16(other)).is_some(), "other keys are not disturbed");
        kani::cover!(full && in_sorted);
        kani::cover!(!full && in_sorted);
    }
}
