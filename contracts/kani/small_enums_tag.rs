// ---------------------------------------------------------------------------
// appended by /verif (Kani route) — add-only, compiled only under cfg(kani)
#[cfg(kani)]
mod verif_kani_small_enums_tag {
    use super::*;

    /// C08/C02: TagType::from_u16 inverts `as u16` over all 65536 values
    #[kani::proof]
    fn tag_type_codec() {
        let v: u16 = kani::any();
        match TagType::from_u16(v) {
            Some(t) => assert!(t as u16 == v, "from_u16(v) as u16 == v"),
            None => assert!(!(v >= 1 && v <= 5) && !(v >= 0x10 && v.count_ones() == 1)),
        }
        kani::cover!(v == 0x8000);
        kani::cover!(v == 5);
    }
}
