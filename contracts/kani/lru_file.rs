// ---------------------------------------------------------------------------
// appended by /verif (Kani route) — add-only, compiled only under cfg(kani)
#[cfg(kani)]
mod verif_kani_lru_file {
    use super::*;
    #[allow(unused_imports)]
    use ::md5::compute as ext_md5_compute;

    /// Stub for md5::compute (external crate, assumed contract): a toy digest that is injective on
    /// every single-byte substitution, truncation and extension of its input: the length and
    /// sum of b_i * 257^i mod 2^64 spread over 16 bytes.  The properties need only
    /// "equal inputs give equal digests" (soundness of accept) and "a changed input gives a changed
    /// digest" for the corruption classes named above.
    pub fn toy_md5<T: AsRef<[u8]>>(data: T) -> md5::Digest {
        let d = data.as_ref();
        // position-dependent XOR/rotate mix: a substitution at any single position changes the value
        // (rotation is a bijection and the byte is XORed in before the next rotation); the length is
        // part of the digest, so truncation and extension change it too
        let mut acc: u64 = 0x9e37_79b9_7f4a_7c15;
        let mut i = 0;
        while i < d.len() {
            acc = acc.rotate_left(7) ^ (d[i] as u64);
            i += 1;
        }
        let l = d.len() as u64;
        let a = acc.to_le_bytes();
        let b = l.to_le_bytes();
        md5::Digest([a[0], a[1], a[2], a[3], a[4], a[5], a[6], a[7], b[0], b[1], b[2], b[3], b[4], b[5], b[6], b[7]])
    }

    fn any_entry() -> LruFileEntry {
        LruFileEntry { prev: kani::any(), next: kani::any(), ekey: kani::any(), flags: kani::any() }
    }

    fn same_entry(a: &LruFileEntry, b: &LruFileEntry) -> bool {
        let mut ok = a.prev == b.prev && a.next == b.next && a.flags == b.flags;
        let mut i = 0;
        while i < 9 {
            ok = ok && a.ekey[i] == b.ekey[i];
            i += 1;
        }
        ok
    }

    /// C08/C02: LruFileEntry codec: from∘to == id on values, to∘from == id on the 18 meaningful bytes
    #[kani::proof]
    #[kani::unwind(21)]
    fn entry_codec() {
        let e = any_entry();
        let b = e.to_bytes();
        assert!(same_entry(&LruFileEntry::from_bytes(&b), &e));
        assert!(b[18] == 0 && b[19] == 0);
        let raw: [u8; LRU_ENTRY_SIZE] = kani::any();
        let o = LruFileEntry::from_bytes(&raw).to_bytes();
        let mut i = 0;
        while i < 18 {
            assert!(o[i] == raw[i]);
            i += 1;
        }
        let mut z = true;
        let mut j = 0;
        while j < 9 {
            z = z && e.ekey[j] == 0;
            j += 1;
        }
        assert!(e.is_active() == !z, "is_active <=> key not all zero");
        kani::cover!(e.is_active());
    }

    /// C08/C02: LruFileHeader codec: None iff version > 1; otherwise round trips on meaningful bytes
    #[kani::proof]
    #[kani::unwind(29)]
    fn header_codec() {
        let raw: [u8; LRU_HEADER_SIZE] = kani::any();
        let version = (raw[0] as u16) | ((raw[1] as u16) << 8);
        match LruFileHeader::from_bytes(&raw) {
            None => assert!(version > LRU_MAX_VERSION),
            Some(h) => {
                assert!(version <= LRU_MAX_VERSION && h.version == version);
                let o = h.to_bytes();
                let mut i = 0;
                while i < LRU_HEADER_SIZE {
                    if i != 2 && i != 3 {
                        assert!(o[i] == raw[i]);
                    } else {
                        assert!(o[i] == 0);
                    }
                    i += 1;
                }
                let h2 = LruFileHeader::from_bytes(&o).unwrap();
                assert!(h2.version == h.version && h2.mru_head == h.mru_head && h2.lru_tail == h.lru_tail && h2.hash == h.hash);
            }
        }
        kani::cover!(version == 1);
        kani::cover!(version == 2);
    }

    /// C02: size arithmetic is total
    #[kani::proof]
    fn size_functions_total() {
        let n: usize = kani::any();
        let ok = validate_file_size(n);
        let c = entry_count_from_file_size(n);
        assert!(ok == (n >= 28 && (n - 28) % 20 == 0));
        assert!(c <= n / 20, "entry count (hence Vec::with_capacity) is bounded by input length / 20");
        if ok {
            assert!(28 + c * 20 == n);
        }
        kani::cover!(ok && c == 3);
    }

    fn check_deserialize<const LEN: usize>() {
        let data: [u8; LEN] = kani::any();
        match deserialize(&data) {
            None => {}
            Some((h, es)) => {
                assert!(validate_file_size(LEN) && es.len() == (LEN - 28) / 20 && es.len() <= LEN / 20);
                let mut z = data;
                let mut i = 4;
                while i < 20 {
                    z[i] = 0;
                    i += 1;
                }
                let dg = toy_md5(&z[..]);
                let mut j = 0;
                while j < 16 {
                    assert!(data[4 + j] == dg.0[j] && h.hash[j] == dg.0[j], "accepted => stored hash == digest of the file with the hash field zeroed");
                    j += 1;
                }
                if es.len() > 0 {
                    let mut eb = [0u8; LRU_ENTRY_SIZE];
                    let mut t = 0;
                    while t < LRU_ENTRY_SIZE {
                        eb[t] = data[28 + t];
                        t += 1;
                    }
                    assert!(same_entry(&es[0], &LruFileEntry::from_bytes(&eb)), "entry 0 is the decoding of its 20 bytes");
                }
            }
        }
        kani::cover!(deserialize(&data).is_some());
        kani::cover!(deserialize(&data).is_none());
    }

    /// C07/C08/C02 (bounded: exactly 48 bytes = one entry, all contents; md5 stubbed)
    #[kani::proof]
    #[kani::unwind(50)]
    #[kani::stub(ext_md5_compute, toy_md5)]
    fn file_deserialize_48() {
        check_deserialize::<48>();
    }

    /// C02 (bounded: exactly 47 bytes - not a whole number of entries - all contents): refused, no panic
    #[kani::proof]
    #[kani::unwind(50)]
    #[kani::stub(ext_md5_compute, toy_md5)]
    fn file_deserialize_47_refused() {
        let data: [u8; 47] = kani::any();
        assert!(deserialize(&data).is_none());
        kani::cover!(true);
    }

    /// C07/C08 (bounded: one entry): deserialize(serialize(h, e)) == Some((h', e)) with h' = h except hash
    #[kani::proof]
    #[kani::unwind(50)]
    #[kani::stub(ext_md5_compute, toy_md5)]
    fn file_roundtrip_1() {
        let h = LruFileHeader { version: kani::any(), hash: kani::any(), mru_head: kani::any(), lru_tail: kani::any() };
        kani::assume(h.version <= LRU_MAX_VERSION);
        let es = [any_entry()];
        let bytes = serialize(&h, &es);
        assert!(bytes.len() == 48);
        match deserialize(&bytes) {
            None => assert!(false, "a freshly serialized file must be accepted"),
            Some((h2, e2)) => {
                assert!(h2.version == h.version && h2.mru_head == h.mru_head && h2.lru_tail == h.lru_tail);
                assert!(e2.len() == 1 && same_entry(&e2[0], &es[0]));
            }
        }
        kani::cover!(true);
    }

    /// C07 (bounded: header-only file of 28 bytes): every single-byte substitution of an accepted file
    /// is rejected (under the digest stub)
    #[kani::proof]
    #[kani::unwind(30)]
    #[kani::stub(ext_md5_compute, toy_md5)]
    fn file_single_byte_corruption_rejected_28() {
        let data: [u8; 28] = kani::any();
        kani::assume(deserialize(&data).is_some());
        let p: usize = kani::any();
        kani::assume(p < 28);
        let v: u8 = kani::any();
        kani::assume(v != data[p]);
        let mut m = data;
        m[p] = v;
        assert!(deserialize(&m).is_none(), "a substituted byte anywhere in the file is detected");
        kani::cover!(p == 27);
        kani::cover!(p == 2);
    }
}
