// ---------------------------------------------------------------------------
// appended by /verif (Kani route) — add-only, compiled only under cfg(kani)
#[cfg(kani)]
mod verif_kani_blte_build {
    use super::*;

    /// assumed contract for the MD5 pass-through ContentKey::from_data (-> external crate md-5):
    /// an uninterpreted digest
    pub fn toy_content_key(data: &[u8]) -> cascette_crypto::md5::ContentKey {
        let mut acc: u64 = 0x9e37_79b9;
        let mut i = 0;
        while i < data.len() {
            acc = acc.rotate_left(5) ^ (data[i] as u64 + 1 + i as u64);
            i += 1;
        }
        let a = acc.to_le_bytes();
        let l = (data.len() as u64).to_le_bytes();
        cascette_crypto::md5::ContentKey::from_bytes([a[0], a[1], a[2], a[3], a[4], a[5], a[6], a[7], l[0], l[1], l[2], l[3], l[4], l[5], l[6], l[7]])
    }

    /// C01 (bounded: two chunks of shapes N/empty then E/1 symbolic byte):
    /// build() hands the builder's chunks to the file unchanged and in order - the positions the
    /// encrypted chunks were keyed to stay their positions - and the chunk table has one row per chunk
    /// with truthful sizes
    #[kani::proof]
    #[kani::unwind(5)]
    #[kani::stub(cascette_crypto::md5::ContentKey::from_data, toy_content_key)]
    fn build_keeps_chunks_and_sizes() {
        let e: u8 = kani::any();
        let inner_len: usize = kani::any();
        kani::assume(inner_len <= 4);
        let b = BlteBuilder {
            chunks: vec![
                ChunkData::from_compressed(CompressionMode::None, Vec::new(), Some(0)),
                ChunkData::from_compressed(CompressionMode::Encrypted, vec![e], Some(inner_len)),
            ],
            default_mode: CompressionMode::None,
            chunk_size: 4,
            encryption: None,
        };
        match b.build() {
            Err(e) => {
                // (BlteError's drop glue reaches binrw::Error: never drop it under CBMC)
                core::mem::forget(e);
                assert!(false, "a non-empty builder with chunks that fit the table builds");
            }
            Ok(f) => {
                assert!(f.chunks.len() == 2, "every added chunk is in the file");
                assert!(f.chunks[0].mode == CompressionMode::None && f.chunks[0].data.len() == 0, "the empty chunk keeps position 0");
                assert!(f.chunks[1].mode == CompressionMode::Encrypted && f.chunks[1].data.len() == 1 && f.chunks[1].data[0] == e, "the encrypted chunk keeps position 1");
                match &f.header.extended {
                    None => assert!(false, "a file with an encrypted chunk carries a chunk table"),
                    Some(x) => {
                        assert!(x.chunk_count == 2 && x.chunk_infos.len() == 2, "one table row per chunk");
                        assert!(x.chunk_infos[0].compressed_size == 1 && x.chunk_infos[0].decompressed_size == 0);
                        assert!(x.chunk_infos[1].compressed_size == 2 && x.chunk_infos[1].decompressed_size == inner_len as u32);
                        // the checksum column is NOT asserted: CBMC gave inconsistent verdicts on
                        // ChunkData::compressed_data()'s heap copy inside an earlier version of this harness
                    }
                }
            }
        }
        kani::cover!(true);
    }
}
