// ---------------------------------------------------------------------------
// appended by /verif (Kani route) — add-only, compiled only under cfg(kani)
#[cfg(kani)]
mod verif_kani_update_section {
    use super::*;

    const K1: [u8; 9] = [1, 0, 0, 0, 0, 0, 0, 0, 9];
    const K2: [u8; 9] = [2, 0, 0, 0, 0, 0, 0, 0, 9];

    fn ent(k: [u8; 9], marker: u32) -> UpdateEntry {
        UpdateEntry { hash_guard: 0x8000_0001, ekey: k, archive_location: ArchiveLocation { archive_id: 1, archive_offset: marker }, encoded_size: 5, status: UpdateStatus::Normal }
    }

    /// a section of capacity one page (21 slots, the real ENTRIES_PER_PAGE) holding `fill` entries for K2
    fn section(fill: usize) -> UpdateSection {
        let mut page = UpdatePage::new();
        let mut i = 0;
        while i < fill {
            page.push(ent(K2, i as u32));
            i += 1;
        }
        UpdateSection { pages: if fill == 0 { Vec::new() } else { vec![page] }, capacity_pages: 1 }
    }

    fn check(fill: usize) {
        let mut s = section(fill);
        let key = if kani::any() { K1 } else { K2 };
        let before = s.entry_count();
        let found_before = s.search(&key).map(|e| e.archive_location.archive_offset);
        assert!(before == fill);
        assert!(s.is_full() == (fill == ENTRIES_PER_PAGE), "is_full <=> every slot of every allowed page is used");
        let r = s.append(ent(key, 777));
        assert!(r == (fill < ENTRIES_PER_PAGE), "append succeeds exactly when there is room");
        if r {
            assert!(s.entry_count() == before + 1);
            assert!(s.search(&key).map(|e| e.archive_location.archive_offset) == Some(777), "the appended entry is the newest for its key");
        } else {
            assert!(s.entry_count() == before, "a refused append changes nothing");
            assert!(s.search(&key).map(|e| e.archive_location.archive_offset) == found_before);
        }
        let other = if key == K1 { K2 } else { K1 };
        if fill > 0 && other == K2 {
            assert!(s.search(&K2).map(|e| e.archive_location.archive_offset) == Some(fill as u32 - 1), "other keys keep their newest entry");
        }
        kani::cover!(key == K1);
        kani::cover!(key == K2);
    }

    /// C05 (bounded: two pages - page 0 full with K1 first then K2 x 20, page 1 holding a newer K1):
    /// search returns the newest entry across the page boundary; entry_count sums the pages
    #[kani::proof]
    #[kani::unwind(24)]
    fn search_newest_across_pages() {
        let mut p0 = UpdatePage::new();
        p0.push(ent(K1, 100));
        let mut i = 1;
        while i < ENTRIES_PER_PAGE {
            p0.push(ent(K2, i as u32));
            i += 1;
        }
        let mut s = UpdateSection { pages: vec![p0], capacity_pages: 2 };
        assert!(!s.is_full(), "a second page is still allowed");
        let newer: u32 = kani::any();
        assert!(s.append(ent(K1, newer)), "append opens the second page");
        assert!(s.page_count() == 2 && s.entry_count() == ENTRIES_PER_PAGE + 1);
        assert!(s.search(&K1).map(|e| e.archive_location.archive_offset) == Some(newer), "newest entry wins across pages");
        assert!(s.search(&K2).map(|e| e.archive_location.archive_offset) == Some(ENTRIES_PER_PAGE as u32 - 1));
        kani::cover!(newer == 100);
    }

    /// C05 (bounded: capacity one page, empty section)
    #[kani::proof]
    #[kani::unwind(24)]
    fn append_search_empty() {
        check(0);
    }

    /// C05 (bounded: capacity one page, 20 of 21 slots used - the last free slot)
    #[kani::proof]
    #[kani::unwind(24)]
    fn append_search_last_slot() {
        check(ENTRIES_PER_PAGE - 1);
    }

    /// C05 (bounded: capacity one page, full)
    #[kani::proof]
    #[kani::unwind(24)]
    fn append_search_full() {
        check(ENTRIES_PER_PAGE);
        kani::cover!(true);
    }
}
