// ---------------------------------------------------------------------------
// appended by /verif (Kani route) — add-only, compiled only under cfg(kani)
#[cfg(kani)]
mod verif_kani_zbsdiff {
    use super::*;
    use crate::zbsdiff::utils::{ControlBlock, ControlEntry};

    pub fn empty_format(_args: core::fmt::Arguments<'_>) -> String {
        String::new()
    }

    /// executable rendering of the bspatch oracle (same definition as the Verus spec `run`/`step`
    /// in contracts/verus/zbsdiff_builder.vc): returns None when the streams run dry or the size is wrong
    fn spec_apply(old: &[u8], control: &[(i64, i64, i64)], diff: &[u8], extra: &[u8], expected: usize, out: &mut [u8; 8]) -> Option<usize> {
        let mut n = 0usize;
        let mut opos: i128 = 0;
        let mut dpos = 0usize;
        let mut epos = 0usize;
        let mut k = 0;
        while k < control.len() {
            let (d, x, s) = control[k];
            if d < 0 || x < 0 {
                return None;
            }
            let mut i: i64 = 0;
            while i < d {
                if dpos >= diff.len() || n >= 8 {
                    return None;
                }
                let p = opos + i as i128;
                let ob = if p >= 0 && (p as usize) < old.len() && p <= usize::MAX as i128 { old[p as usize] } else { 0 };
                out[n] = ob.wrapping_add(diff[dpos]);
                n += 1;
                dpos += 1;
                i += 1;
            }
            opos += d as i128;
            let mut j: i64 = 0;
            while j < x {
                if epos >= extra.len() || n >= 8 {
                    return None;
                }
                out[n] = extra[epos];
                n += 1;
                epos += 1;
                j += 1;
            }
            opos += s as i128;
            if opos < 0 {
                opos = 0;
            }
            if opos > usize::MAX as i128 {
                opos = usize::MAX as i128;
            }
            k += 1;
        }
        if n == expected { Some(n) } else { None }
    }

    /// C16 (bounded: two control triples of shape (2,1,s1),(1,1,s2) with symbolic seeks -4..=4, symbolic
    /// 3-byte old, 3-byte diff and 2-byte extra streams, symbolic expected size): apply_patch_with_data ==
    /// the bspatch oracle; Ok(out) => out.len() == expected
    #[kani::proof]
    #[kani::unwind(6)]
    #[kani::stub(alloc::fmt::format, empty_format)]
    fn apply_matches_oracle_bounded() {
        check_shape([(2, 1, 0), (1, 1, 0)]);
    }

    /// C16 (thorough; bounded: triples of shape (0,2,s1),(3,0,s2): extra first, then a diff run that reads
    /// past the end of old)
    #[kani::proof]
    #[kani::unwind(6)]
    #[kani::stub(alloc::fmt::format, empty_format)]
    fn apply_matches_oracle_shape2() {
        check_shape([(0, 2, 0), (3, 0, 0)]);
    }

    /// C16 (bounded: a seek-only triple (0,0,s1) - what the suffix builder emits first when the match does
    /// not start at old[0] - followed by (2,1,s2))
    #[kani::proof]
    #[kani::unwind(6)]
    #[kani::stub(alloc::fmt::format, empty_format)]
    fn apply_matches_oracle_seek_only_first() {
        check_shape([(0, 0, 0), (2, 1, 0)]);
    }

    fn check_shape(shape: [(i64, i64, i64); 2]) {
        let oldb: [u8; 3] = kani::any();
        let diffb: [u8; 3] = kani::any();
        let extrab: [u8; 2] = kani::any();
        let s1: i64 = kani::any();
        let s2: i64 = kani::any();
        kani::assume(s1 >= -4 && s1 <= 4 && s2 >= -4 && s2 <= 4);
        let c: [(i64, i64, i64); 2] = [(shape[0].0, shape[0].1, s1), (shape[1].0, shape[1].1, s2)];
        let expected: usize = kani::any();
        kani::assume(expected <= 6);
        let mut entries = Vec::new();
        entries.push(ControlEntry::new(c[0].0, c[0].1, c[0].2));
        entries.push(ControlEntry::new(c[1].0, c[1].1, c[1].2));
        let block = ControlBlock { entries };
        let r = apply_patch_with_data(&oldb, &block, &diffb, &extrab, expected);
        let mut so = [0u8; 8];
        let s = spec_apply(&oldb, &c, &diffb, &extrab, expected, &mut so);
        match (&r, s) {
            (Ok(out), Some(n)) => {
                assert!(out.len() == expected && n == expected, "Ok => exactly the stated length");
                let mut i = 0;
                while i < 5 {
                    if i < n {
                        assert!(out[i] == so[i], "output == bspatch oracle");
                    }
                    i += 1;
                }
            }
            (Err(_), None) => {}
            (Ok(_), None) => assert!(false, "code accepted a patch the oracle rejects"),
            (Err(_), Some(_)) => assert!(false, "code rejected a patch the oracle applies"),
        }
        kani::cover!(r.is_ok());
        kani::cover!(r.is_err());
        core::mem::forget(r);
    }
}
