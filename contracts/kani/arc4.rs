// ---------------------------------------------------------------------------
// appended by /verif (Kani route) — add-only, compiled only under cfg(kani)
#[cfg(kani)]
mod verif_kani_arc4 {
    use super::*;

    /// textbook PRGA step on (S, i, j): returns the output byte
    fn spec_prga(s: &mut [u8; 256], i: &mut u8, j: &mut u8) -> u8 {
        *i = i.wrapping_add(1);
        *j = j.wrapping_add(s[*i as usize]);
        let t = s[*i as usize];
        s[*i as usize] = s[*j as usize];
        s[*j as usize] = t;
        s[s[*i as usize].wrapping_add(s[*j as usize]) as usize]
    }

    /// C09: Arc4Cipher::apply_keystream / encrypt over 2 data bytes from EVERY cipher state (any S-box
    /// contents, any i, j): each byte is XORed with the next textbook PRGA output; encrypt == apply;
    /// decrypt(encrypt(x)) == x from the same starting state
    #[kani::proof]
    #[kani::unwind(4)]
    fn stream_two_bytes_all_states() {
        let s0: [u8; 256] = kani::any();
        let (i0, j0): (u8, u8) = kani::any();
        let d0: [u8; 2] = kani::any();
        let mut c = Arc4Cipher { s: s0, i: i0, j: j0 };
        let mut d = d0;
        c.apply_keystream(&mut d);
        let (mut s, mut i, mut j) = (s0, i0, j0);
        let k0 = spec_prga(&mut s, &mut i, &mut j);
        let k1 = spec_prga(&mut s, &mut i, &mut j);
        assert!(d[0] == d0[0] ^ k0 && d[1] == d0[1] ^ k1, "data XOR textbook keystream");
        assert!(c.i == i && c.j == j, "indices advanced as in the textbook");
        let mut c2 = Arc4Cipher { s: s0, i: i0, j: j0 };
        let e = c2.encrypt(&d0);
        assert!(e.len() == 2 && e[0] == d[0] && e[1] == d[1], "encrypt == apply_keystream");
        let mut c3 = Arc4Cipher { s: s0, i: i0, j: j0 };
        let back = c3.decrypt(&e);
        assert!(back[0] == d0[0] && back[1] == d0[1], "decrypt(encrypt(x)) == x");
        kani::cover!(i0 == 255);
    }
}
