// ---------------------------------------------------------------------------
// appended by /verif (Kani route) — add-only, compiled only under cfg(kani)
#[cfg(kani)]
mod verif_kani_jenkins {
    use super::*;

    // executable rendering of the lookup3.c oracle (same definitions as contracts/verus/jenkins.vc)
    fn rot(x: u32, k: u32) -> u32 {
        (x << k) | (x >> (32 - k))
    }

    fn spec_mix(mut a: u32, mut b: u32, mut c: u32) -> (u32, u32, u32) {
        a = a.wrapping_sub(c); a ^= rot(c, 4); c = c.wrapping_add(b);
        b = b.wrapping_sub(a); b ^= rot(a, 6); a = a.wrapping_add(c);
        c = c.wrapping_sub(b); c ^= rot(b, 8); b = b.wrapping_add(a);
        a = a.wrapping_sub(c); a ^= rot(c, 16); c = c.wrapping_add(b);
        b = b.wrapping_sub(a); b ^= rot(a, 19); a = a.wrapping_add(c);
        c = c.wrapping_sub(b); c ^= rot(b, 4); b = b.wrapping_add(a);
        (a, b, c)
    }

    fn spec_final(mut a: u32, mut b: u32, mut c: u32) -> (u32, u32, u32) {
        c ^= b; c = c.wrapping_sub(rot(b, 14));
        a ^= c; a = a.wrapping_sub(rot(c, 11));
        b ^= a; b = b.wrapping_sub(rot(a, 25));
        c ^= b; c = c.wrapping_sub(rot(b, 16));
        a ^= c; a = a.wrapping_sub(rot(c, 4));
        b ^= a; b = b.wrapping_sub(rot(a, 14));
        c ^= b; c = c.wrapping_sub(rot(b, 24));
        (a, b, c)
    }

    /// byte-wise lookup3 (the portable path of hashlittle2 in lookup3.c): returns (c, b)
    fn spec_hashlittle2(key: &[u8], pc: u32, pb: u32) -> (u32, u32) {
        let mut a = 0xdead_beefu32.wrapping_add(key.len() as u32).wrapping_add(pc);
        let mut b = a;
        let mut c = a.wrapping_add(pb);
        let mut off = 0usize;
        let mut len = key.len();
        while len > 12 {
            let k = &key[off..];
            a = a.wrapping_add(k[0] as u32 | (k[1] as u32) << 8 | (k[2] as u32) << 16 | (k[3] as u32) << 24);
            b = b.wrapping_add(k[4] as u32 | (k[5] as u32) << 8 | (k[6] as u32) << 16 | (k[7] as u32) << 24);
            c = c.wrapping_add(k[8] as u32 | (k[9] as u32) << 8 | (k[10] as u32) << 16 | (k[11] as u32) << 24);
            let m = spec_mix(a, b, c);
            a = m.0; b = m.1; c = m.2;
            off += 12;
            len -= 12;
        }
        if len == 0 {
            return (c, b);
        }
        let k = &key[off..];
        let mut i = len;
        while i > 0 {
            i -= 1;
            let v = (k[i] as u32) << (8 * (i % 4) as u32);
            if i >= 8 { c = c.wrapping_add(v); } else if i >= 4 { b = b.wrapping_add(v); } else { a = a.wrapping_add(v); }
        }
        let f = spec_final(a, b, c);
        (f.2, f.1)
    }

    /// C09 (bounded: every length 0..=25 - all 13 tail cases after zero, one and two full blocks -
    /// one byte pattern and one seed pair; inputs are concrete so CBMC evaluates both sides):
    /// hashlittle / hashlittle2 / Jenkins96::hash == lookup3.  The unbounded statement is the Verus
    /// unit `jenkins`; this harness is its counterexample source when that proof fails or cannot be built.
    #[kani::proof]
    #[kani::unwind(28)]
    fn lookup3_lengths_0_to_25() {
        let seeds: [(u32, u32); 1] = [(0x3D6B_E971, 0x0bad_f00d)];
        let mut pat = 0u8;
        while pat < 1 {
            let mut buf = [0u8; 25];
            let mut i = 0;
            while i < 25 {
                buf[i] = match pat { 0 => (i as u8).wrapping_mul(37).wrapping_add(11), 1 => 0xff, _ => (255 - i as u8) ^ 0x5a };
                i += 1;
            }
            let mut len = 0usize;
            while len <= 25 {
                let key = &buf[..len];
                let mut s = 0;
                while s < 1 {
                    let (pc0, pb0) = seeds[s];
                    let (mut pc, mut pb) = (pc0, pb0);
                    hashlittle2(key, &mut pc, &mut pb);
                    let e = spec_hashlittle2(key, pc0, pb0);
                    assert!(pc == e.0 && pb == e.1, "hashlittle2 == lookup3 hashlittle2");
                    assert!(hashlittle(key, pc0) == spec_hashlittle2(key, pc0, 0).0, "hashlittle == lookup3 hashlittle");
                    s += 1;
                }
                let j = Jenkins96::hash(key);
                let z = spec_hashlittle2(key, 0, 0);
                assert!(j.hash32 == z.0 && j.hash64 == ((z.0 as u64) << 32 | z.1 as u64), "Jenkins96::hash == (pc << 32 | pb, pc)");
                len += 1;
            }
            pat += 1;
        }
        kani::cover!(true);
    }

    /// C09 (thorough; bounded: lengths 26..=37, second byte pattern, second seed pair)
    #[kani::proof]
    #[kani::unwind(40)]
    fn lookup3_lengths_26_to_37() {
        let (pc0, pb0): (u32, u32) = (0xdead_beef, 7);
        let mut buf = [0u8; 37];
        let mut i = 0;
        while i < 37 {
            buf[i] = (255 - i as u8) ^ 0x5a;
            i += 1;
        }
        let mut len = 26usize;
        while len <= 37 {
            let key = &buf[..len];
            let (mut pc, mut pb) = (pc0, pb0);
            hashlittle2(key, &mut pc, &mut pb);
            let e = spec_hashlittle2(key, pc0, pb0);
            assert!(pc == e.0 && pb == e.1, "hashlittle2 == lookup3 hashlittle2");
            assert!(hashlittle(key, pc0) == spec_hashlittle2(key, pc0, 0).0, "hashlittle == lookup3 hashlittle");
            len += 1;
        }
        kani::cover!(true);
    }
}
