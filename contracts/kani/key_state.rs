// ---------------------------------------------------------------------------
// appended by /verif (Kani route) — add-only, compiled only under cfg(kani)
#[cfg(kani)]
mod verif_kani_key_state {
    use super::*;

    fn any_type() -> ResidencyUpdateType {
        let s: u8 = kani::any();
        kani::assume(s == 0 || s == 1 || s == 2 || s == 3 || s == 6 || s == 7);
        ResidencyUpdateType::from_byte(s)
    }

    fn any_span() -> ResidencySpan {
        ResidencySpan { offset: kani::any(), length: kani::any(), reserved1: kani::any(), reserved2: kani::any() }
    }

    fn any_entry() -> ResidencyEntry {
        ResidencyEntry { hash_flags: kani::any(), ekey: kani::any(), span: any_span(), update_type: any_type() }
    }

    fn same_span(a: &ResidencySpan, b: &ResidencySpan) -> bool {
        a.offset == b.offset && a.length == b.length && a.reserved1 == b.reserved1 && a.reserved2 == b.reserved2
    }

    fn same(a: &ResidencyEntry, b: &ResidencyEntry) -> bool {
        let mut ok = a.hash_flags == b.hash_flags && same_span(&a.span, &b.span) && a.update_type as u8 == b.update_type as u8;
        let mut i = 0;
        while i < 16 {
            ok = ok && a.ekey[i] == b.ekey[i];
            i += 1;
        }
        ok
    }

    fn be32(v: i32) -> [u8; 4] {
        let u = v as u32;
        [((u >> 24) & 0xff) as u8, ((u >> 16) & 0xff) as u8, ((u >> 8) & 0xff) as u8, (u & 0xff) as u8]
    }

    /// C08: ResidencySpan codec is a bijection between values and 16-byte strings (4 x i32 big-endian)
    #[kani::proof]
    #[kani::unwind(17)]
    fn span_codec() {
        let s = any_span();
        let b = s.to_bytes();
        let (o, l, r1, r2) = (be32(s.offset), be32(s.length), be32(s.reserved1), be32(s.reserved2));
        let mut i = 0;
        while i < 4 {
            assert!(b[i] == o[i] && b[4 + i] == l[i] && b[8 + i] == r1[i] && b[12 + i] == r2[i], "big-endian layout");
            i += 1;
        }
        assert!(same_span(&ResidencySpan::from_bytes(&b), &s));
        let raw: [u8; 16] = kani::any();
        let back = ResidencySpan::from_bytes(&raw).to_bytes();
        let mut j = 0;
        while j < 16 {
            assert!(back[j] == raw[j]);
            j += 1;
        }
        kani::cover!(s.offset < 0);
    }

    /// C08: from_bytes(to_bytes(e)) == e for every entry value
    #[kani::proof]
    #[kani::unwind(41)]
    fn entry_decode_encode() {
        let e = any_entry();
        let b = e.to_bytes();
        assert!(same(&ResidencyEntry::from_bytes(&b), &e));
        assert!(b[37] == 0 && b[38] == 0 && b[39] == 0 && b[36] == e.update_type as u8);
        kani::cover!(e.update_type as u8 == 7);
    }

    /// C08/C02: to_bytes(from_bytes(b)) == b on the 36 meaningful bytes, canonical type byte, zero padding; fixed point
    #[kani::proof]
    #[kani::unwind(41)]
    fn entry_encode_decode() {
        let b: [u8; RESIDENCY_ENTRY_SIZE] = kani::any();
        let e = ResidencyEntry::from_bytes(&b);
        let o = e.to_bytes();
        let mut i = 0;
        while i < 36 {
            assert!(o[i] == b[i]);
            i += 1;
        }
        let t = b[36];
        let canon = if t == 1 || t == 2 || t == 3 || t == 6 || t == 7 { t } else { 0 };
        assert!(o[36] == canon && o[37] == 0 && o[38] == 0 && o[39] == 0);
        let o2 = ResidencyEntry::from_bytes(&o).to_bytes();
        let mut j = 0;
        while j < RESIDENCY_ENTRY_SIZE {
            assert!(o2[j] == o[j]);
            j += 1;
        }
        kani::cover!(t == 200);
    }

    /// C07: validate_hash_guard() <=> hash_flags == hashlittle(bytes[4..37], 0) | 0x80000000; new() validates
    #[kani::proof]
    #[kani::unwind(41)]
    fn entry_guard_iff() {
        let e = any_entry();
        let b = e.to_bytes();
        let exp = cascette_crypto::jenkins::hashlittle(&b[4..37], 0) | 0x8000_0000;
        assert!(e.validate_hash_guard() == (e.hash_flags == exp));
        let n = ResidencyEntry::new(e.ekey, e.span, e.update_type);
        assert!(n.validate_hash_guard() && n.is_valid() && n.hash_flags != 0);
        kani::cover!(e.validate_hash_guard());
        kani::cover!(!e.validate_hash_guard());
    }

    /// bucket_hash is the documented XOR fold and always < 16 (an index into the 16 buckets)
    #[kani::proof]
    #[kani::unwind(17)]
    fn bucket_hash_in_range() {
        let k: [u8; 16] = kani::any();
        let h = ResidencyEntry::bucket_hash(&k);
        let mut x = 0u8;
        let mut i = 0;
        while i < 16 {
            x ^= k[i];
            i += 1;
        }
        assert!(h == ((x >> 4) ^ x) & 0x0f && (h as usize) < RESIDENCY_BUCKET_COUNT);
        kani::cover!(h == 15);
    }

    /// C02: ResidencyPage::from_bytes total on every input of length 0..=1024; Some(p) => 1..=25 entries,
    /// entry k == decoding of slot k, parsing stops exactly at the first zero guard
    #[kani::proof]
    #[kani::unwind(42)]
    fn page_from_bytes_total() {
        let data: [u8; RESIDENCY_PAGE_SIZE] = kani::any();
        let len: usize = kani::any();
        kani::assume(len <= RESIDENCY_PAGE_SIZE);
        match ResidencyPage::from_bytes(&data[..len]) {
            None => assert!(len < RESIDENCY_PAGE_SIZE || (data[0] == 0 && data[1] == 0 && data[2] == 0 && data[3] == 0)),
            Some(p) => {
                assert!(len == RESIDENCY_PAGE_SIZE);
                let n = p.len();
                assert!(n >= 1 && n <= RESIDENCY_ENTRIES_PER_PAGE);
                let k: usize = kani::any();
                kani::assume(k < n);
                let s = k * RESIDENCY_ENTRY_SIZE;
                assert!(!(data[s] == 0 && data[s + 1] == 0 && data[s + 2] == 0 && data[s + 3] == 0));
                let mut arr = [0u8; RESIDENCY_ENTRY_SIZE];
                let mut i = 0;
                while i < RESIDENCY_ENTRY_SIZE {
                    arr[i] = data[s + i];
                    i += 1;
                }
                assert!(same(&p.entries()[k], &ResidencyEntry::from_bytes(&arr)));
                if n < RESIDENCY_ENTRIES_PER_PAGE {
                    let z = n * RESIDENCY_ENTRY_SIZE;
                    assert!(data[z] == 0 && data[z + 1] == 0 && data[z + 2] == 0 && data[z + 3] == 0);
                }
            }
        }
        kani::cover!(len == RESIDENCY_PAGE_SIZE && data[0] != 0 && data[40 * 24] != 0);
    }
}
