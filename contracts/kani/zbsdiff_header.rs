// ---------------------------------------------------------------------------
// appended by /verif (Kani route) — add-only, compiled only under cfg(kani)
#[cfg(kani)]
mod verif_kani_zbsdiff_header {
    use super::*;

    /// C02: ZbsdiffHeader::validate is total and exact; an accepted header bounds every size it will
    /// be used to allocate (<= 1e9) and minimum_patch_size()/compressed_data_size() cannot overflow
    #[kani::proof]
    fn header_validate_total() {
        let h = ZbsdiffHeader { signature: kani::any(), control_size: kani::any(), diff_size: kani::any(), output_size: kani::any() };
        let r = h.validate();
        let ok = r.is_ok();
        core::mem::forget(r);
        const MAX: i64 = 1_000_000_000;
        assert!(ok == (h.signature == ZBSDIFF1_SIGNATURE && h.control_size >= 0 && h.diff_size >= 0 && h.output_size >= 0 && h.control_size <= MAX && h.diff_size <= MAX && h.output_size <= MAX && h.control_size + h.diff_size <= MAX));
        if ok {
            let _ = h.minimum_patch_size();
            let _ = h.compressed_data_size();
        }
        kani::cover!(ok);
        kani::cover!(!ok);
    }
}
