// ---------------------------------------------------------------------------
// appended by /verif (Kani route) — add-only, compiled only under cfg(kani)
#[cfg(kani)]
mod verif_kani_salsa20 {
    use super::*;

    // ===== oracle: D. J. Bernstein, "Salsa20 specification" (2005), sections 2-8.
    // Words are u32, "+" is addition mod 2^32, "<<<" is left rotation.
    fn rotl(x: u32, n: u32) -> u32 {
        x.rotate_left(n)
    }

    /// section 3: quarterround(y0,y1,y2,y3) = (z0,z1,z2,z3)
    pub fn spec_quarterround(y0: u32, y1: u32, y2: u32, y3: u32) -> (u32, u32, u32, u32) {
        let z1 = y1 ^ rotl(y0.wrapping_add(y3), 7);
        let z2 = y2 ^ rotl(z1.wrapping_add(y0), 9);
        let z3 = y3 ^ rotl(z2.wrapping_add(z1), 13);
        let z0 = y0 ^ rotl(z3.wrapping_add(z2), 18);
        (z0, z1, z2, z3)
    }

    /// section 4: rowround
    pub fn spec_rowround(y: [u32; 16]) -> [u32; 16] {
        let mut z = [0u32; 16];
        (z[0], z[1], z[2], z[3]) = spec_quarterround(y[0], y[1], y[2], y[3]);
        (z[5], z[6], z[7], z[4]) = spec_quarterround(y[5], y[6], y[7], y[4]);
        (z[10], z[11], z[8], z[9]) = spec_quarterround(y[10], y[11], y[8], y[9]);
        (z[15], z[12], z[13], z[14]) = spec_quarterround(y[15], y[12], y[13], y[14]);
        z
    }

    /// section 5: columnround
    pub fn spec_columnround(x: [u32; 16]) -> [u32; 16] {
        let mut y = [0u32; 16];
        (y[0], y[4], y[8], y[12]) = spec_quarterround(x[0], x[4], x[8], x[12]);
        (y[5], y[9], y[13], y[1]) = spec_quarterround(x[5], x[9], x[13], x[1]);
        (y[10], y[14], y[2], y[6]) = spec_quarterround(x[10], x[14], x[2], x[6]);
        (y[15], y[3], y[7], y[11]) = spec_quarterround(x[15], x[3], x[7], x[11]);
        y
    }

    /// section 6: doubleround(x) = rowround(columnround(x))
    pub fn spec_doubleround(x: [u32; 16]) -> [u32; 16] {
        spec_rowround(spec_columnround(x))
    }

    /// section 8 on words: Salsa20(x) = x + doubleround^10(x), serialised little-endian (section 7)
    pub fn spec_salsa20_block(x: [u32; 16]) -> [u8; 64] {
        let mut z = x;
        let mut r = 0;
        while r < 10 {
            z = spec_doubleround(z);
            r += 1;
        }
        let mut out = [0u8; 64];
        let mut i = 0;
        while i < 16 {
            let w = z[i].wrapping_add(x[i]);
            out[4 * i] = (w & 0xff) as u8;
            out[4 * i + 1] = ((w >> 8) & 0xff) as u8;
            out[4 * i + 2] = ((w >> 16) & 0xff) as u8;
            out[4 * i + 3] = ((w >> 24) & 0xff) as u8;
            i += 1;
        }
        out
    }

    fn le32(b0: u8, b1: u8, b2: u8, b3: u8) -> u32 {
        (b0 as u32) | ((b1 as u32) << 8) | ((b2 as u32) << 16) | ((b3 as u32) << 24)
    }

    /// section 9, 16-byte key: Salsa20_k(n) = Salsa20(tau0,k,tau1,n,tau2,k,tau3) with
    /// tau = "expand 16-byte k"; n = (nonce[8], counter[8]).  The NGDP variant: the nonce is
    /// the IV zero-padded to 8 bytes with the block index XORed little-endian into bytes 0..4.
    pub fn spec_initial_state(key: &[u8; 16], iv: &[u8], block_index: usize) -> [u32; 16] {
        let mut n = [0u8; 8];
        let mut i = 0;
        while i < iv.len() && i < 8 {
            n[i] = iv[i];
            i += 1;
        }
        let bi = block_index as u32;
        n[0] ^= (bi & 0xff) as u8;
        n[1] ^= ((bi >> 8) & 0xff) as u8;
        n[2] ^= ((bi >> 16) & 0xff) as u8;
        n[3] ^= ((bi >> 24) & 0xff) as u8;
        let k0 = le32(key[0], key[1], key[2], key[3]);
        let k1 = le32(key[4], key[5], key[6], key[7]);
        let k2 = le32(key[8], key[9], key[10], key[11]);
        let k3 = le32(key[12], key[13], key[14], key[15]);
        [
            0x6170_7865, k0, k1, k2, k3, 0x3120_646e,
            le32(n[0], n[1], n[2], n[3]), le32(n[4], n[5], n[6], n[7]),
            0, 0,
            0x7962_2d36, k0, k1, k2, k3, 0x6b20_6574,
        ]
    }

    /// 64-bit little-endian block counter in words 8,9 (section 10)
    pub fn spec_counter_inc(s: [u32; 16]) -> [u32; 16] {
        let ctr = ((s[9] as u64) << 32) | (s[8] as u64);
        let ctr = ctr.wrapping_add(1);
        let mut t = s;
        t[8] = (ctr & 0xffff_ffff) as u32;
        t[9] = (ctr >> 32) as u32;
        t
    }

    // ===== contract of quarter_round (used by the attributes on the real fn)
    pub fn qr_pre(a: usize, b: usize, c: usize, d: usize) -> bool {
        a < 16 && b < 16 && c < 16 && d < 16 && a != b && a != c && a != d && b != c && b != d && c != d
    }

    pub fn qr_post(old: &[u32; 16], new: &[u32; 16], a: usize, b: usize, c: usize, d: usize) -> bool {
        let (z0, z1, z2, z3) = spec_quarterround(old[a], old[b], old[c], old[d]);
        let mut ok = new[a] == z0 && new[b] == z1 && new[c] == z2 && new[d] == z3;
        let mut i = 0;
        while i < 16 {
            if i != a && i != b && i != c && i != d {
                ok = ok && new[i] == old[i];
            }
            i += 1;
        }
        ok
    }

    pub fn eq16(a: &[u32; 16], b: &[u32; 16]) -> bool {
        let mut ok = true;
        let mut i = 0;
        while i < 16 {
            ok = ok && a[i] == b[i];
            i += 1;
        }
        ok
    }

    pub fn eq64(a: &[u8; 64], b: &[u8; 64]) -> bool {
        let mut ok = true;
        let mut i = 0;
        while i < 64 {
            ok = ok && a[i] == b[i];
            i += 1;
        }
        ok
    }

    // ===== lemma on the primitive the oracle shares with the code: rotate_left is <<< of the paper
    #[kani::proof]
    fn lemma_rotate_left_is_rotation() {
        let x: u32 = kani::any();
        assert!(x.rotate_left(7) == (x << 7) | (x >> 25));
        assert!(x.rotate_left(9) == (x << 9) | (x >> 23));
        assert!(x.rotate_left(13) == (x << 13) | (x >> 19));
        assert!(x.rotate_left(18) == (x << 18) | (x >> 14));
        let y: u32 = kani::any();
        assert!(x.wrapping_add(y) as u64 == ((x as u64) + (y as u64)) % (1u64 << 32));
        kani::cover!(true);
    }

    // ===== obligations
    #[kani::proof_for_contract(Salsa20Cipher::quarter_round)]
    fn contract_quarter_round() {
        let mut s: [u32; 16] = kani::any();
        let (a, b, c, d): (usize, usize, usize, usize) = kani::any();
        Salsa20Cipher::quarter_round(&mut s, a, b, c, d);
        kani::cover!(true);
    }

    /// generate_keystream: keystream == Salsa20(state), counter += 1 (64-bit, with carry), pos = 0,
    /// every other state word unchanged.  Complete: all 2^512 states.
    #[kani::proof]
    #[kani::unwind(65)]
    fn block_generate_keystream() {
        let state: [u32; 16] = kani::any();
        let mut c = Salsa20Cipher { state, keystream: kani::any(), keystream_pos: kani::any() };
        c.generate_keystream();
        let exp = spec_salsa20_block(state);
        assert!(eq64(&c.keystream, &exp), "keystream == Salsa20(state)");
        assert!(eq16(&c.state, &spec_counter_inc(state)), "counter incremented with carry, other words framed");
        assert!(c.keystream_pos == 0, "keystream_pos reset");
        kani::cover!(state[8] == u32::MAX);
    }

    /// same, modular: quarter_round replaced by its verified contract
    #[kani::proof]
    #[kani::unwind(65)]
    #[kani::stub_verified(Salsa20Cipher::quarter_round)]
    #[kani::solver(kissat)]
    fn block_generate_keystream_modular() {
        let state: [u32; 16] = kani::any();
        let mut c = Salsa20Cipher { state, keystream: kani::any(), keystream_pos: kani::any() };
        c.generate_keystream();
        let exp = spec_salsa20_block(state);
        assert!(eq64(&c.keystream, &exp), "keystream == Salsa20(state)");
        assert!(eq16(&c.state, &spec_counter_inc(state)), "counter incremented with carry, other words framed");
        assert!(c.keystream_pos == 0);
        kani::cover!(true);
    }

    /// cheap obligations of generate_keystream: counter carry + frame + pos
    #[kani::proof]
    #[kani::unwind(65)]
    #[kani::stub_verified(Salsa20Cipher::quarter_round)]
    fn counter_generate_keystream() {
        let state: [u32; 16] = kani::any();
        let mut c = Salsa20Cipher { state, keystream: [0; 64], keystream_pos: kani::any() };
        c.generate_keystream();
        assert!(eq16(&c.state, &spec_counter_inc(state)), "counter incremented with carry, other words framed");
        assert!(c.keystream_pos == 0, "keystream_pos reset");
        kani::cover!(state[8] == u32::MAX && state[9] == 7);
    }

    /// new(): Err iff iv.len() not in {4,8}; else state == spec layout with counter already advanced
    /// past the first block, keystream == first block, pos == 0
    #[kani::proof]
    #[kani::unwind(65)]
    #[kani::stub(Salsa20Cipher::generate_keystream, stub_generate_keystream_mark)]
    fn layout_new() {
        let key: [u8; 16] = kani::any();
        let ivbuf: [u8; 10] = kani::any();
        let len: usize = kani::any();
        kani::assume(len <= 10);
        let iv = &ivbuf[..len];
        let bi: usize = kani::any();
        match Salsa20Cipher::new(&key, iv, bi) {
            Err(_) => assert!(len != 4 && len != 8, "Err only for IV length not in {4,8}"),
            Ok(c) => {
                assert!(len == 4 || len == 8, "Ok only for IV length 4 or 8");
                let exp = spec_initial_state(&key, iv, bi);
                // the stub marks that generate_keystream ran exactly once on the laid-out state
                assert!(eq16(&c.state, &exp), "state layout: tau, key twice, nonce = iv ^ block index, counter 0");
                assert!(c.keystream_pos == 0xC0FFEE, "generate_keystream called once by new()");
            }
        }
        kani::cover!(len == 8 && bi > 0xffff_ffff);
        kani::cover!(len == 4);
    }

    fn stub_generate_keystream_mark(c: &mut Salsa20Cipher) {
        assert!(c.keystream_pos == 64);
        c.keystream_pos = 0xC0FFEE;
    }

    // ===== apply_keystream, modular over generate_keystream (replaced by a marker refill)
    fn stub_refill_marker(c: &mut Salsa20Cipher) {
        let mut i = 0;
        while i < 64 {
            c.keystream[i] = c.keystream[i].wrapping_add(1);
            i += 1;
        }
        c.state[8] = c.state[8].wrapping_add(1);
        c.keystream_pos = 0;
    }

    /// apply_keystream: byte i of the data is XORed with the keystream byte at the current position,
    /// the position advances by one per byte, and exactly when the 64-byte block is exhausted the next
    /// block is generated BEFORE the next byte is used (all keystreams, all positions 0..=64, 3 data
    /// bytes - enough to cross the block boundary at every offset)
    #[kani::proof]
    #[kani::unwind(66)]
    #[kani::stub(Salsa20Cipher::generate_keystream, stub_refill_marker)]
    fn apply_keystream_xor_and_refill() {
        let ks: [u8; 64] = kani::any();
        let pos: usize = kani::any();
        kani::assume(pos <= 64);
        let mut c = Salsa20Cipher { state: [0; 16], keystream: ks, keystream_pos: pos };
        let d0: [u8; 3] = kani::any();
        let mut d = d0;
        c.apply_keystream(&mut d);
        let mut p = pos;
        let mut refills = 0u32;
        let mut i = 0;
        while i < 3 {
            if p >= 64 {
                p = 0;
                refills += 1;
            }
            let k = ks[p].wrapping_add(refills as u8);
            assert!(d[i] == d0[i] ^ k, "data byte XOR keystream byte at the running position");
            p += 1;
            i += 1;
        }
        assert!(c.keystream_pos == p && c.state[8] == refills, "position advanced; one refill per exhausted block");
        kani::cover!(pos == 63);
        kani::cover!(pos == 64);
        kani::cover!(pos == 0);
    }
}
