// ---------------------------------------------------------------------------
// appended by /verif (Kani route) — add-only, compiled only under cfg(kani)
#[cfg(kani)]
mod verif_kani_compaction {
    use super::*;

    // plan_archive_merge is NOT under a harness: its source selection compares `used as f64 /
    // segment_size as f64` with the threshold, so the length of the `sources` vector is symbolic for
    // CBMC even when every segment qualifies, and std's sort_by_key is then explored through its
    // quicksort recursion (median3_rec) - three attempts (4, 3 and 2 segments) ran 25 minutes each
    // without leaving symbolic execution.  Verus rejects f64.  The planner is reported as not decided.

    pub fn empty_format(_args: core::fmt::Arguments<'_>) -> String {
        String::new()
    }

    /// C18 (bounded: exactly 3 spans with symbolic offsets/lengths < 2^32, any input order):
    /// validate_spans accepts exactly the pairwise disjoint sets (positive lengths) and returns them
    /// sorted; counterexample source for the Verus unit `compaction`
    #[kani::proof]
    #[kani::unwind(5)]
    #[kani::stub(alloc::fmt::format, empty_format)]
    fn validate_spans_bounded_3() {
        let o: [u32; 3] = kani::any();
        let l: [u32; 3] = kani::any();
        kani::assume(l[0] >= 1 && l[1] >= 1 && l[2] >= 1);
        let mut spans = [
            DataSpan { offset: o[0] as u64, length: l[0] as u64 },
            DataSpan { offset: o[1] as u64, length: l[1] as u64 },
            DataSpan { offset: o[2] as u64, length: l[2] as u64 },
        ];
        let ov = |a: usize, b: usize| (o[a] as u64) < o[b] as u64 + l[b] as u64 && (o[b] as u64) < o[a] as u64 + l[a] as u64;
        let any_overlap = ov(0, 1) || ov(0, 2) || ov(1, 2);
        let r = validate_spans(&mut spans);
        let ok = r.is_ok();
        core::mem::forget(r);
        assert!(ok == !any_overlap, "accepted <=> no two spans share a byte");
        if ok {
            assert!(spans[0].offset <= spans[1].offset && spans[1].offset <= spans[2].offset, "accepted spans are in offset order");
            assert!(spans[0].end() <= spans[1].offset && spans[1].end() <= spans[2].offset);
        }
        kani::cover!(ok);
        kani::cover!(!ok && !ov(0, 1) && !ov(0, 2));
    }
}
