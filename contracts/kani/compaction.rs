// ---------------------------------------------------------------------------
// appended by /verif (Kani route) — add-only, compiled only under cfg(kani)
#[cfg(kani)]
mod verif_kani_compaction {
    use super::*;
    use crate::storage::segment::SegmentHeader;

    const N: usize = 3;

    fn any_state() -> SegmentState {
        if kani::any() { SegmentState::Frozen } else { SegmentState::Thawed }
    }

    /// C18 (bounded: exactly 3 frozen segments that all qualify as sources - threshold 2.0 - with
    /// arbitrary used sizes 1..=segment_size <= 2^40): every move of the merge plan
    ///  - names two different existing segments and copies the source's used bytes [0, used)
    ///  - lands behind the destination's own used bytes (never onto bytes the destination uses)
    ///  - stays inside the segment size
    ///  - does not overlap any other move into the same destination
    /// and total_bytes is the sum of the move lengths.
    #[kani::proof]
    #[kani::unwind(5)]
    fn merge_plan_bounded() {
        // concrete segment size: the u64 -> f64 conversion and f64 division of the utilisation test
        // with a symbolic divisor is what kept the fully symbolic version from finishing
        let seg_size: u64 = 1 << 20;
        let wp: [u64; N] = kani::any();
        let mut i = 0;
        while i < N {
            kani::assume(wp[i] >= 1 && wp[i] <= seg_size);
            i += 1;
        }
        // the planner never reads SegmentInfo::header; an all-zero bit pattern is a valid value of this
        // plain-data type and avoids symbolically executing 16 header constructions
        #[allow(unsafe_code)]
        fn hdr() -> SegmentHeader {
            unsafe { core::mem::zeroed() }
        }
        let segs: [SegmentInfo; N] = [
            SegmentInfo { index: 0, state: SegmentState::Frozen, write_position: wp[0], header: hdr() },
            SegmentInfo { index: 1, state: SegmentState::Frozen, write_position: wp[1], header: hdr() },
            SegmentInfo { index: 2, state: SegmentState::Frozen, write_position: wp[2], header: hdr() },
        ];
        let n = N;
        let plan = plan_archive_merge(&segs, 2.0, seg_size);
        let m = plan.moves.len();
        assert!(m < N, "at most n-1 moves");
        let mut total: u64 = 0;
        let mut a = 0;
        while a < m {
            let ma = &plan.moves[a];
            let (s, d) = (ma.source_segment as usize, ma.dest_segment as usize);
            assert!(s < n && d < n && s != d, "moves name two different existing segments");
            assert!(ma.source_offset == 0 && ma.length == segs[s].write_position, "a move copies exactly the source's used bytes");
            assert!(ma.dest_offset >= segs[d].write_position, "never directs data onto bytes the destination already uses");
            assert!(ma.dest_offset + ma.length <= seg_size, "never fills a segment beyond its size");
            let mut b = 0;
            while b < a {
                let mb = &plan.moves[b];
                if mb.dest_segment == ma.dest_segment {
                    assert!(mb.dest_offset + mb.length <= ma.dest_offset || ma.dest_offset + ma.length <= mb.dest_offset, "two moves into one destination never overlap");
                }
                b += 1;
            }
            total += ma.length;
            a += 1;
        }
        assert!(plan.total_bytes == total, "total_bytes is the sum of the move lengths");
        kani::cover!(m == 2);
        kani::cover!(m == 1);
        kani::cover!(m == 0);
    }

    pub fn empty_format(_args: core::fmt::Arguments<'_>) -> String {
        String::new()
    }

    /// C18 (bounded: exactly 3 spans with symbolic offsets/lengths < 2^32, any input order):
    /// validate_spans accepts exactly the pairwise disjoint sets (positive lengths) and returns them
    /// sorted; counterexample source for the Verus unit `compaction`
    #[kani::proof]
    #[kani::unwind(5)]
    #[kani::stub(alloc::fmt::format, empty_format)]
    fn validate_spans_bounded_3() {
        let o: [u32; 3] = kani::any();
        let l: [u32; 3] = kani::any();
        kani::assume(l[0] >= 1 && l[1] >= 1 && l[2] >= 1);
        let mut spans = [
            DataSpan { offset: o[0] as u64, length: l[0] as u64 },
            DataSpan { offset: o[1] as u64, length: l[1] as u64 },
            DataSpan { offset: o[2] as u64, length: l[2] as u64 },
        ];
        let ov = |a: usize, b: usize| (o[a] as u64) < o[b] as u64 + l[b] as u64 && (o[b] as u64) < o[a] as u64 + l[a] as u64;
        let any_overlap = ov(0, 1) || ov(0, 2) || ov(1, 2);
        let r = validate_spans(&mut spans);
        let ok = r.is_ok();
        core::mem::forget(r);
        assert!(ok == !any_overlap, "accepted <=> no two spans share a byte");
        if ok {
            assert!(spans[0].offset <= spans[1].offset && spans[1].offset <= spans[2].offset, "accepted spans are in offset order");
            assert!(spans[0].end() <= spans[1].offset && spans[1].end() <= spans[2].offset);
        }
        kani::cover!(ok);
        kani::cover!(!ok && !ov(0, 1) && !ov(0, 2));
    }
}
