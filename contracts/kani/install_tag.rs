// ---------------------------------------------------------------------------
// appended by /verif (Kani route) — add-only, compiled only under cfg(kani)
#[cfg(kani)]
mod verif_kani_install_tag {
    use super::*;

    fn bit(mask: &[u8], i: usize) -> bool {
        i / 8 < mask.len() && (mask[i / 8] >> (7 - (i % 8))) & 1 == 1
    }

    /// C19 (bounded: masks of exactly 2 bytes with arbitrary contents, file indices 0..24 - inside the
    /// mask, at its end and one byte beyond): has_file / add_file / remove_file / new against
    /// the MSB-first oracle.  The unbounded statement is the Verus unit `install_tag`; this harness is
    /// its counterexample source.
    #[kani::proof]
    #[kani::unwind(26)]
    fn tag_ops_bounded() {
        let m: [u8; 2] = kani::any();
        let i: usize = kani::any();
        kani::assume(i < 24);
        let t = InstallTag { name: String::new(), tag_type: TagType::Platform, bit_mask: m.to_vec() };
        assert!(t.has_file(i) == bit(&m, i), "has_file == MSB-first bit");
        let mut a = InstallTag { name: String::new(), tag_type: TagType::Platform, bit_mask: m.to_vec() };
        a.add_file(i);
        let mut r = InstallTag { name: String::new(), tag_type: TagType::Platform, bit_mask: m.to_vec() };
        r.remove_file(i);
        assert!(a.bit_mask.len() == (if i < 16 { 2 } else { 3 }) && r.bit_mask.len() == 2);
        let mut j = 0;
        while j < 24 {
            assert!(bit(&a.bit_mask, j) == (j == i || bit(&m, j)), "add_file sets exactly bit i");
            assert!(bit(&r.bit_mask, j) == (j != i && bit(&m, j)), "remove_file clears exactly bit i");
            j += 1;
        }
        let z = InstallTag::new(String::new(), TagType::Locale, 9);
        assert!(z.bit_mask.len() == 2 && !z.has_file(i), "new: ceil(n/8) zero bytes");
        kani::cover!(i == 7);
        kani::cover!(i == 16);
    }
}
