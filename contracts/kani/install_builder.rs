// ---------------------------------------------------------------------------
// appended by /verif (Kani route) — add-only, compiled only under cfg(kani)
#[cfg(kani)]
mod verif_kani_install_builder {
    use super::*;

    /// std's RandomState::new() asks the OS for entropy (a syscall Kani does not model).  The builder's
    /// HashMap is never consulted by the functions under test; fixed keys are as good as random ones.
    #[allow(unsafe_code)]
    pub fn fixed_random_state() -> std::collections::hash_map::RandomState {
        unsafe { core::mem::transmute::<(u64, u64), std::collections::hash_map::RandomState>((0u64, 0u64)) }
    }

    /// oracle, independent of InstallTag::has_file: MSB-first bit i of the mask bytes
    fn bit(mask: &[u8], i: usize) -> bool {
        i / 8 < mask.len() && (mask[i / 8] >> (7 - (i % 8))) & 1 == 1
    }

    fn builder_with(n: usize, mask: &[u8]) -> InstallManifestBuilder {
        let mut b = InstallManifestBuilder::new();
        let mut i = 0;
        while i < n {
            b.entries.push(InstallFileEntry::new(String::new(), ContentKey::from_bytes([0u8; 16]), i as u32));
            i += 1;
        }
        b.tags.push(InstallTag { name: String::new(), tag_type: TagType::Platform, bit_mask: mask.to_vec() });
        b
    }

    fn check_remove<const NF: usize>(k: usize) {
        let m: [u8; 3] = kani::any();
        let len = (NF + 7) / 8;
        let b = builder_with(NF, &m[..len]);
        match b.remove_file(k) {
            Err(_) => assert!(false, "in-range removal must succeed"),
            Ok(b2) => {
                assert!(b2.entries.len() == NF - 1);
                let nm = &b2.tags[0].bit_mask;
                assert!(nm.len() == (NF - 1 + 7) / 8, "mask length == ceil(files/8)");
                let mut j = 0;
                while j < 24 {
                    if j < NF - 1 {
                        let oldj = if j < k { j } else { j + 1 };
                        assert!(bit(nm, j) == bit(&m[..len], oldj), "surviving file keeps its association");
                        assert!(b2.tags[0].has_file(j) == bit(&m[..len], oldj));
                        assert!(b2.entries[j].file_size == oldj as u32, "entries shift with their bits");
                    } else {
                        assert!(!bit(nm, j), "no stray bits beyond the file count");
                    }
                    j += 1;
                }
            }
        }
        kani::cover!(true);
    }

    /// C19 (bounded: 9 files -> 8, the mask shrinks from two bytes to one; first file removed; any mask)
    #[kani::proof]
    #[kani::unwind(26)]
    #[kani::stub(std::collections::hash_map::RandomState::new, fixed_random_state)]
    fn remove_file_9_first() {
        check_remove::<9>(0);
    }

    /// C19 (bounded: 9 files -> 8; last file removed)
    #[kani::proof]
    #[kani::unwind(26)]
    #[kani::stub(std::collections::hash_map::RandomState::new, fixed_random_state)]
    fn remove_file_9_last() {
        check_remove::<9>(8);
    }

    /// C19 (bounded: 17 files -> 16; the file at the byte boundary removed)
    #[kani::proof]
    #[kani::unwind(26)]
    #[kani::stub(std::collections::hash_map::RandomState::new, fixed_random_state)]
    fn remove_file_17_boundary() {
        check_remove::<17>(8);
    }

    /// C19 (bounded: 10 files -> 9; a middle file removed, mask stays two bytes)
    #[kani::proof]
    #[kani::unwind(26)]
    #[kani::stub(std::collections::hash_map::RandomState::new, fixed_random_state)]
    fn remove_file_10_middle() {
        check_remove::<10>(4);
    }

    /// C19 (thorough; bounded: 17 files -> 16, first file removed)
    #[kani::proof]
    #[kani::unwind(34)]
    #[kani::stub(std::collections::hash_map::RandomState::new, fixed_random_state)]
    fn remove_file_17_first() {
        check_remove::<17>(0);
    }

    /// C19 (thorough; bounded: 17 files -> 16, last file removed: the mask shrinks to two bytes)
    #[kani::proof]
    #[kani::unwind(34)]
    #[kani::stub(std::collections::hash_map::RandomState::new, fixed_random_state)]
    fn remove_file_17_last() {
        check_remove::<17>(16);
    }

    fn check_add<const NF: usize>() {
        let m: [u8; 3] = kani::any();
        let len = (NF + 7) / 8;
        let b = builder_with(NF, &m[..len]);
        // (add_tag is exercised through its mask-sizing effect only: its HashMap insert is what made the
        // earlier version of this harness run out of time)
        let mut b2 = b.add_file(String::new(), ContentKey::from_bytes([1u8; 16]), 99);
        let sized = (b2.entries.len() + 7) / 8;
        b2.tags.push(InstallTag::new(String::new(), TagType::Locale, b2.entries.len()));
        assert!(b2.tags[1].bit_mask.len() == sized);
        assert!(b2.entries.len() == NF + 1 && b2.tags.len() == 2);
        assert!(b2.tags[0].bit_mask.len() == (NF + 1 + 7) / 8 && b2.tags[1].bit_mask.len() == (NF + 1 + 7) / 8);
        let mut j = 0;
        while j < 24 {
            if j < NF {
                assert!(bit(&b2.tags[0].bit_mask, j) == bit(&m[..len], j), "existing associations preserved");
            }
            if j >= len * 8 {
                assert!(!bit(&b2.tags[0].bit_mask, j), "new mask bytes start clear");
            }
            assert!(!bit(&b2.tags[1].bit_mask, j), "a new tag selects nothing");
            j += 1;
        }
        match b2.associate_file_with_tag_by_index(NF, 1) {
            Ok(b3) => {
                assert!(bit(&b3.tags[1].bit_mask, NF) && b3.tags[1].has_file(NF));
                let mut j = 0;
                while j < 24 {
                    assert!(j == NF || !bit(&b3.tags[1].bit_mask, j));
                    assert!(j >= NF || bit(&b3.tags[0].bit_mask, j) == bit(&m[..len], j));
                    j += 1;
                }
            }
            Err(_) => assert!(false),
        }
        kani::cover!(true);
    }

    /// C19 (bounded: 8 existing files -> 9, the mask grows from one byte to two): add_file keeps every
    /// existing association and sizes every mask to ceil(files/8); add_tag creates an all-clear mask;
    /// associate sets exactly one bit
    #[kani::proof]
    #[kani::unwind(26)]
    #[kani::stub(std::collections::hash_map::RandomState::new, fixed_random_state)]
    fn add_file_and_tag_preserve_bits_8() {
        check_add::<8>();
    }
}
