// ---------------------------------------------------------------------------
// appended by /verif (Kani route) — add-only, compiled only under cfg(kani)
#[cfg(kani)]
mod verif_kani_blte_chunk {
    use super::*;
    pub fn empty_format(_args: core::fmt::Arguments<'_>) -> String {
        String::new()
    }

    const KEY: [u8; 16] = [0x11, 0x22, 0x33, 0x44, 0x55, 0x66, 0x77, 0x88, 0x99, 0xaa, 0xbb, 0xcc, 0xdd, 0xee, 0xff, 0x01];

    fn check(spec: EncryptionSpec, bi: usize) {
        let data: [u8; 3] = kani::any();
        let b = BlteBuilder::new();
        let chunk = match b.create_encrypted_chunk_with_params(data.to_vec(), spec, KEY, bi) {
            Ok(c) => c,
            Err(e) => {
                core::mem::forget(e);
                assert!(false, "encrypting a raw payload succeeds");
                return;
            }
        };
        assert!(chunk.mode == CompressionMode::Encrypted);
        let d = &chunk.data;
        // encrypted chunk framing: [8][key name LE x8][4][iv x4][type][ciphertext of ('N' || payload)]
        assert!(d.len() == 1 + 8 + 1 + 4 + 1 + 4, "framing length");
        assert!(d[0] == 8 && d[9] == 4 && d[14] == spec.encryption_type);
        let kn = spec.key_name.to_le_bytes();
        let mut i = 0;
        while i < 8 {
            assert!(d[1 + i] == kn[i], "key name little-endian");
            i += 1;
        }
        assert!(d[10] == spec.iv[0] && d[11] == spec.iv[1] && d[12] == spec.iv[2] && d[13] == spec.iv[3]);
        // the ciphertext decrypts, with the SAME block index, to the mode byte 'N' followed by the payload
        // (decrypt_chunk_with_keys' own header parsing and key lookup go through a HashMap and are not
        // covered: that harness did not finish)
        match cascette_crypto::salsa20::decrypt_salsa20(&d[15..], &KEY, &spec.iv, bi) {
            Ok(p) => assert!(p.len() == 4 && p[0] == b'N' && p[1] == data[0] && p[2] == data[1] && p[3] == data[2], "decrypt(encrypt('N' || x), same index) == 'N' || x"),
            Err(_) => assert!(false),
        }
        kani::cover!(true);
    }

    /// C01 (bounded: 3 symbolic payload bytes, concrete key/IV, Salsa20, block index 1)
    #[kani::proof]
    #[kani::unwind(66)]
    #[kani::stub(alloc::fmt::format, empty_format)]
    fn chunk_framing_salsa20_index_1() {
        check(EncryptionSpec::salsa20(0x1234_5678_9abc_def0, [9, 8, 7, 6]), 1);
    }

    /// C01 (bounded: same with a block index above 2^16: all four index bytes enter the nonce)
    #[kani::proof]
    #[kani::unwind(66)]
    #[kani::stub(alloc::fmt::format, empty_format)]
    fn chunk_framing_salsa20_index_70000() {
        check(EncryptionSpec::salsa20(0x1234_5678_9abc_def0, [9, 8, 7, 6]), 70_000);
    }

    // ---- decoder side of the chunk-level contract ------------------------------------------------
    #[allow(unsafe_code)]
    pub fn fixed_random_state() -> std::collections::hash_map::RandomState {
        unsafe { core::mem::transmute::<(u64, u64), std::collections::hash_map::RandomState>((0u64, 0u64)) }
    }

    static STORE_KEY: [u8; 16] = KEY;

    /// stands in for TactKeyStore::get (a std HashMap lookup CBMC does not get through): the store
    /// "contains" exactly the key named 0x1234_5678_9abc_def0
    pub fn stub_store_get(_s: &cascette_crypto::TactKeyStore, id: u64) -> Option<&'static [u8; 16]> {
        if id == 0x1234_5678_9abc_def0 { Some(&STORE_KEY) } else { None }
    }

    fn check_round_trip(spec: EncryptionSpec, bi: usize) {
        let data: [u8; 3] = kani::any();
        let b = BlteBuilder::new();
        let chunk = match b.create_encrypted_chunk_with_params(data.to_vec(), spec, KEY, bi) {
            Ok(c) => c,
            Err(e) => {
                core::mem::forget(e);
                assert!(false, "encrypting a raw payload succeeds");
                return;
            }
        };
        let store = cascette_crypto::TactKeyStore::empty();
        match crate::blte::compression::decrypt_chunk_with_keys(&chunk.data, &store, bi) {
            Ok(p) => assert!(p.len() == 3 && p[0] == data[0] && p[1] == data[1] && p[2] == data[2], "decrypt_chunk_with_keys(create_encrypted_chunk(x, i), i) == x"),
            Err(e) => {
                core::mem::forget(e);
                assert!(false, "the real decoder accepts what the real encoder framed");
            }
        }
        core::mem::forget(store);
        kani::cover!(true);
    }

    /// C01 (bounded: 3 symbolic payload bytes, Salsa20, block index 1): the REAL decoder of one encrypted
    /// chunk (header parsing, key lookup stubbed, cipher, inner mode byte) inverts the real encoder
    #[kani::proof]
    #[kani::unwind(66)]
    #[kani::stub(alloc::fmt::format, empty_format)]
    #[kani::stub(std::collections::hash_map::RandomState::new, fixed_random_state)]
    #[kani::stub(cascette_crypto::TactKeyStore::get, stub_store_get)]
    fn chunk_round_trip_salsa20_index_1() {
        check_round_trip(EncryptionSpec::salsa20(0x1234_5678_9abc_def0, [9, 8, 7, 6]), 1);
    }

    /// C01 (thorough; bounded: same with block index 70000)
    #[kani::proof]
    #[kani::unwind(66)]
    #[kani::stub(alloc::fmt::format, empty_format)]
    #[kani::stub(std::collections::hash_map::RandomState::new, fixed_random_state)]
    #[kani::stub(cascette_crypto::TactKeyStore::get, stub_store_get)]
    fn chunk_round_trip_salsa20_index_70000() {
        check_round_trip(EncryptionSpec::salsa20(0x1234_5678_9abc_def0, [9, 8, 7, 6]), 70_000);
    }

}
