// ---------------------------------------------------------------------------
// appended by /verif (Kani route) — add-only, compiled only under cfg(kani)
#[cfg(kani)]
mod verif_kani_lru {
    use super::*;

    /// std's RandomState::new() asks the OS for entropy (a syscall Kani does not model); fixed keys
    /// are as good as random ones for a key->slot map
    #[allow(unsafe_code)]
    pub fn fixed_random_state() -> std::collections::hash_map::RandomState {
        unsafe { core::mem::transmute::<(u64, u64), std::collections::hash_map::RandomState>((0u64, 0u64)) }
    }

    const KEYS: [[u8; 9]; 3] = [[0u8; 9], [1, 0, 0, 0, 0, 0, 0, 0, 0], [2, 2, 2, 2, 2, 2, 2, 2, 2]];

    /// textbook LRU over key indices 0..3: `ord[..n]` from least to most recent
    struct Model {
        ord: [usize; 3],
        n: usize,
        cap: usize,
    }

    impl Model {
        fn pos(&self, k: usize) -> Option<usize> {
            let mut i = 0;
            while i < self.n {
                if self.ord[i] == k {
                    return Some(i);
                }
                i += 1;
            }
            None
        }
        fn remove_at(&mut self, p: usize) {
            let mut i = p;
            while i + 1 < self.n {
                self.ord[i] = self.ord[i + 1];
                i += 1;
            }
            self.n -= 1;
        }
        fn touch(&mut self, k: usize) {
            if let Some(p) = self.pos(k) {
                self.remove_at(p);
            } else if self.n == self.cap {
                self.remove_at(0);
            }
            self.ord[self.n] = k;
            self.n += 1;
        }
    }

    fn order_of(l: &LruManager) -> ([usize; 3], usize) {
        let mut out = [9usize; 3];
        let mut n = 0usize;
        l.for_each_entry(|k| {
            let mut i = 0;
            while i < 3 {
                if *k == KEYS[i] && n < 3 {
                    out[n] = i;
                    n += 1;
                }
                i += 1;
            }
        });
        (out, n)
    }

    fn run(cap: u32, steps: usize) {
        let mut l = LruManager::new(cap, PathBuf::new());
        let mut m = Model { ord: [9; 3], n: 0, cap: cap as usize };
        let mut s = 0;
        while s < steps {
            let op: u8 = kani::any();
            let k: usize = kani::any();
            kani::assume(op < 4 && k < 3);
            match op {
                0 => {
                    let r = l.touch(&KEYS[k]);
                    m.touch(k);
                    assert!(r, "touch with capacity >= 1 returns true");
                }
                1 => {
                    let r = l.remove(&KEYS[k]);
                    let p = m.pos(k);
                    assert!(r == p.is_some(), "remove returns whether the key was present");
                    if let Some(p) = p {
                        m.remove_at(p);
                    }
                }
                2 => {
                    let r = l.evict_tail();
                    assert!(r.is_some() == (m.n > 0));
                    if m.n > 0 {
                        m.remove_at(0);
                    }
                }
                _ => {
                    let (ev, _) = l.evict_to_target(2, 1);
                    let want = if m.n < 2 { m.n } else { 2 };
                    assert!(ev == want, "evict_to_target evicts ceil(target/size) entries or everything");
                    let mut i = 0;
                    while i < want {
                        m.remove_at(0);
                        i += 1;
                    }
                }
            }
            // after every step: membership, size and recency order agree with the textbook LRU
            let (ord, n) = order_of(&l);
            assert!(n == m.n && l.len() == m.n, "same number of keys, never more than capacity");
            let mut i = 0;
            while i < 3 {
                assert!(l.contains(&KEYS[i]) == m.pos(i).is_some(), "same keys");
                if i < n {
                    assert!(ord[i] == m.ord[i], "same recency order");
                }
                i += 1;
            }
            s += 1;
        }
    }

    /// C17 (bounded: capacity 1, 3 keys incl. the all-zero key, every sequence of 3 operations)
    #[kani::proof]
    #[kani::unwind(5)]
    #[kani::stub(std::collections::hash_map::RandomState::new, fixed_random_state)]
    fn history_cap1_len3() {
        run(1, 3);
        kani::cover!(true);
    }

    /// C17 (bounded: capacity 2, 3 keys incl. the all-zero key, every sequence of 3 operations)
    #[kani::proof]
    #[kani::unwind(5)]
    #[kani::stub(std::collections::hash_map::RandomState::new, fixed_random_state)]
    fn history_cap2_len3() {
        run(2, 3);
        kani::cover!(true);
    }
}
