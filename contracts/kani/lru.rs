// ---------------------------------------------------------------------------
// appended by /verif (Kani route) — add-only, compiled only under cfg(kani)
#[cfg(kani)]
mod verif_kani_lru {
    use super::*;

    /// std's RandomState::new() asks the OS for entropy (a syscall Kani does not model); fixed keys
    /// are as good as random ones for a key->slot map
    #[allow(unsafe_code)]
    pub fn fixed_random_state() -> std::collections::hash_map::RandomState {
        unsafe { core::mem::transmute::<(u64, u64), std::collections::hash_map::RandomState>((0u64, 0u64)) }
    }

    // no all-zero key here: for_each_entry (the observer used below) skips entries whose key is all zero
    // (LruFileEntry::is_active), a quirk of the on-disk 'empty slot' convention that belongs to the
    // not-covered reload clause; the Verus unit covers touch/remove/evict/contains for every key
    const KEYS: [[u8; 9]; 3] = [[0, 0, 0, 0, 0, 0, 0, 0, 7], [1, 0, 0, 0, 0, 0, 0, 0, 0], [2, 2, 2, 2, 2, 2, 2, 2, 2]];

    /// textbook LRU over key indices 0..3: `ord[..n]` from least to most recent
    struct Model {
        ord: [usize; 3],
        n: usize,
        cap: usize,
    }

    impl Model {
        fn pos(&self, k: usize) -> Option<usize> {
            let mut i = 0;
            while i < self.n {
                if self.ord[i] == k {
                    return Some(i);
                }
                i += 1;
            }
            None
        }
        fn remove_at(&mut self, p: usize) {
            let mut i = p;
            while i + 1 < self.n {
                self.ord[i] = self.ord[i + 1];
                i += 1;
            }
            self.n -= 1;
        }
        fn touch(&mut self, k: usize) {
            if let Some(p) = self.pos(k) {
                self.remove_at(p);
            } else if self.n == self.cap {
                self.remove_at(0);
            }
            self.ord[self.n] = k;
            self.n += 1;
        }
    }

    fn order_of(l: &LruManager) -> ([usize; 3], usize) {
        let mut out = [9usize; 3];
        let mut n = 0usize;
        l.for_each_entry(|k| {
            let mut i = 0;
            while i < 3 {
                if *k == KEYS[i] && n < 3 {
                    out[n] = i;
                    n += 1;
                }
                i += 1;
            }
        });
        (out, n)
    }

    fn step(l: &mut LruManager, m: &mut Model, op: u8, k: usize) {
        match op {
            0 => {
                let r = l.touch(&KEYS[k]);
                m.touch(k);
                assert!(r, "touch with capacity >= 1 returns true");
            }
            1 => {
                let r = l.remove(&KEYS[k]);
                let p = m.pos(k);
                assert!(r == p.is_some(), "remove returns whether the key was present");
                if let Some(p) = p {
                    m.remove_at(p);
                }
            }
            _ => {
                let r = l.evict_tail();
                assert!(r.is_some() == (m.n > 0));
                if m.n > 0 {
                    m.remove_at(0);
                }
            }
        }
        let (ord, n) = order_of(l);
        assert!(n == m.n && l.len() == m.n, "same number of keys, never more than capacity");
        let mut i = 0;
        while i < 3 {
            assert!(l.contains(&KEYS[i]) == m.pos(i).is_some(), "same keys");
            if i < n {
                assert!(ord[i] == m.ord[i], "same recency order");
            }
            i += 1;
        }
    }

    fn scenario(cap: u32, prog: &[(u8, usize)]) {
        let mut l = LruManager::new(cap, PathBuf::new());
        let mut m = Model { ord: [9; 3], n: 0, cap: cap as usize };
        let mut s = 0;
        while s < prog.len() {
            step(&mut l, &mut m, prog[s].0, prog[s].1);
            s += 1;
        }
    }

    /// C17 (bounded: one concrete history - rotation at capacity 1 through the all-zero key)
    #[kani::proof]
    #[kani::unwind(12)]
    #[kani::stub(std::collections::hash_map::RandomState::new, fixed_random_state)]
    fn scenario_cap1_rotation() {
        scenario(1, &[(0, 0), (0, 1), (0, 2), (0, 1)]);
        kani::cover!(true);
    }

    /// C17 (bounded: one concrete history - drain by evict_tail, refill past capacity, touch the tail)
    #[kani::proof]
    #[kani::unwind(12)]
    #[kani::stub(std::collections::hash_map::RandomState::new, fixed_random_state)]
    fn scenario_cap2_drain_refill() {
        scenario(2, &[(0, 0), (2, 0), (0, 1), (0, 2), (0, 0), (0, 2), (1, 0)]);
        kani::cover!(true);
    }
}
