// ---------------------------------------------------------------------------
// appended by /verif (Kani route) — add-only, compiled only under cfg(kani)
#[cfg(kani)]
mod verif_kani_encoding_index {
    use super::*;
    #[allow(unused_imports)]
    use ::md5::compute as ext_md5_compute;

    /// assumed contract for md5::compute (external crate): an uninterpreted digest
    pub fn toy_md5<T: AsRef<[u8]>>(data: T) -> md5::Digest {
        let d = data.as_ref();
        let mut acc: u64 = 0x9e37_79b9_7f4a_7c15;
        let mut i = 0;
        while i < d.len() {
            acc = acc.rotate_left(7) ^ (d[i] as u64);
            i += 1;
        }
        let a = acc.to_le_bytes();
        let b = (d.len() as u64).to_le_bytes();
        md5::Digest([a[0], a[1], a[2], a[3], a[4], a[5], a[6], a[7], b[0], b[1], b[2], b[3], b[4], b[5], b[6], b[7]])
    }

    /// C07: encoding page index entry: verify(page) <=> checksum == MD5(page), all 16 bytes compared
    /// (pages of 0..=8 bytes, all contents, all stored checksums; md5 stubbed)
    #[kani::proof]
    #[kani::unwind(18)]
    #[kani::stub(ext_md5_compute, toy_md5)]
    fn page_verify_iff_md5() {
        let page: [u8; 8] = kani::any();
        let n: usize = kani::any();
        kani::assume(n <= 8);
        let e = IndexEntry::new(kani::any(), kani::any());
        let dg = toy_md5(&page[..n]);
        let mut eq = true;
        let mut i = 0;
        while i < 16 {
            eq = eq && e.checksum[i] == dg.0[i];
            i += 1;
        }
        assert!(e.verify(&page[..n]) == eq, "verify <=> stored checksum equals the page digest in every byte");
        kani::cover!(e.verify(&page[..n]));
        kani::cover!(!e.verify(&page[..n]));
    }
}
