// ---------------------------------------------------------------------------
// appended by /verif (Kani route) — add-only, compiled only under cfg(kani)
#[cfg(kani)]
impl UpdateSection {
    /// test-state constructor for harnesses in sibling modules (fields are private)
    pub(crate) fn verif_set(&mut self, pages: Vec<UpdatePage>, capacity_pages: usize) {
        self.pages = pages;
        self.capacity_pages = capacity_pages;
    }
}
