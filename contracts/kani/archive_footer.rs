// ---------------------------------------------------------------------------
// appended by /verif (Kani route) — add-only, compiled only under cfg(kani)
#[cfg(kani)]
mod verif_kani_archive_footer {
    use super::*;

    /// Assumed contract for the MD5 pass-through cascette_crypto::md5::ContentKey::from_data
    /// (-> external crate md-5): an uninterpreted digest.  Cheap and injective enough for the
    /// footer obligations: 16 bytes derived from length and a positional byte sum.
    pub fn toy_content_key(data: &[u8]) -> cascette_crypto::md5::ContentKey {
        let mut acc: u64 = 0x9e37_79b9;
        let mut i = 0;
        while i < data.len() {
            acc = acc.rotate_left(5) ^ (data[i] as u64 + 1 + i as u64);
            i += 1;
        }
        let a = acc.to_le_bytes();
        let l = (data.len() as u64).to_le_bytes();
        cascette_crypto::md5::ContentKey::from_bytes([a[0], a[1], a[2], a[3], a[4], a[5], a[6], a[7], l[0], l[1], l[2], l[3], l[4], l[5], l[6], l[7]])
    }

    pub fn empty_format(_args: core::fmt::Arguments<'_>) -> String {
        String::new()
    }

    /// any footer value whose hash vector has 0..=MAXH bytes
    const MAXH: usize = 12;
    fn any_footer() -> IndexFooter {
        let n: usize = kani::any();
        kani::assume(n <= MAXH);
        let buf: [u8; MAXH] = kani::any();
        IndexFooter {
            toc_hash: kani::any(),
            version: kani::any(),
            reserved: kani::any(),
            page_size_kb: kani::any(),
            offset_bytes: kani::any(),
            size_bytes: kani::any(),
            ekey_length: kani::any(),
            footer_hash_bytes: kani::any(),
            element_count: kani::any(),
            footer_hash: buf[..n].to_vec(),
        }
    }

    fn spec_fields(f: &IndexFooter) -> [u8; 20] {
        let c = f.element_count;
        [
            f.version, f.reserved[0], f.reserved[1], f.page_size_kb, f.offset_bytes, f.size_bytes, f.ekey_length, f.footer_hash_bytes,
            (c & 0xff) as u8, ((c >> 8) & 0xff) as u8, ((c >> 16) & 0xff) as u8, ((c >> 24) & 0xff) as u8,
            0, 0, 0, 0, 0, 0, 0, 0,
        ]
    }

    /// C02 + C07: is_valid never panics, for any stored hash length 0..=12 and any footer_hash_bytes;
    /// is_valid <=> the stored hash prefix (n = min(len, footer_hash_bytes), n <= 8) equals the
    /// first n bytes of MD5(12 footer bytes zero-padded to 20)
    #[kani::proof]
    #[kani::unwind(22)]
    #[kani::stub(cascette_crypto::md5::ContentKey::from_data, toy_content_key)]
    fn footer_is_valid_total_and_iff() {
        let f = any_footer();
        let v = f.is_valid();
        let n = if f.footer_hash.len() < f.footer_hash_bytes as usize { f.footer_hash.len() } else { f.footer_hash_bytes as usize };
        let dg = toy_content_key(&spec_fields(&f));
        let mut eq = n <= 8;
        let mut i = 0;
        while i < 8 {
            if i < n {
                eq = eq && f.footer_hash[i] == dg.as_bytes()[i];
            }
            i += 1;
        }
        assert!(v == eq, "is_valid <=> stored prefix == digest prefix (and the prefix fits the 8-byte digest)");
        kani::cover!(v && n == 8);
        kani::cover!(n > 8);
        kani::cover!(!v && n == 8);
    }

    /// C07: new() produces a valid footer with an 8-byte hash
    #[kani::proof]
    #[kani::unwind(22)]
    #[kani::stub(cascette_crypto::md5::ContentKey::from_data, toy_content_key)]
    fn footer_new_is_valid() {
        let t: [u8; 8] = kani::any();
        let c: u32 = kani::any();
        let f = IndexFooter::new(t.to_vec(), c);
        assert!(f.is_valid() && f.footer_hash.len() == 8 && f.footer_hash_bytes == 8 && f.element_count == c);
        kani::cover!(true);
    }

    /// C02: validate_format is total for every footer; validate_file_size is total for every footer
    /// that passed validate_format (the order used by every loader) and every file size; accepted
    /// sizes satisfy the documented formula
    #[kani::proof]
    #[kani::unwind(22)]
    #[kani::stub(alloc::fmt::format, empty_format)]
    fn footer_validate_total() {
        let f = any_footer();
        let size: u64 = kani::any();
        // error values are leaked, not dropped: the drop glue of ArchiveError (binrw::Error inside) is
        // a deep recursion that CBMC cannot unwind, and it is not what these obligations are about
        let vf = f.validate_format();
        let vf_ok = vf.is_ok();
        core::mem::forget(vf);
        if vf_ok {
            assert!(f.version <= 1 && f.page_size_kb == 4 && f.size_bytes == 4 && f.offset_bytes >= 4 && f.offset_bytes <= 6 && f.ekey_length >= 1 && f.ekey_length <= 16 && f.footer_hash_bytes == 8 && f.reserved[0] == 0 && f.reserved[1] == 0);
            let r = f.validate_file_size(size);
            let r_ok = r.is_ok();
            core::mem::forget(r);
            // exactness of the size formula is not part of C02 (and equating two 64-bit dividers is
            // out of SAT's reach); the obligation here is totality: no division by zero, no overflow
            if r_ok {
                assert!(size >= 28, "an accepted file is at least a footer");
            }
        }
        kani::cover!(vf_ok);
        kani::cover!(!vf_ok);
    }
}
