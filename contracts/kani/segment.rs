// ---------------------------------------------------------------------------
// appended by /verif (Kani route) — add-only, compiled only under cfg(kani)
#[cfg(kani)]
mod verif_kani_segment {
    use super::*;

    /// C08/C02: SegmentHeader (16 x 30-byte local headers = 480 bytes): from_bytes is total, None iff
    /// shorter than 480 bytes, and to_bytes(from_bytes(b)) == b for every 480-byte string
    #[kani::proof]
    #[kani::unwind(32)]
    fn segment_header_codec() {
        let data: [u8; SEGMENT_HEADER_SIZE] = kani::any();
        let short: bool = kani::any();
        let d: &[u8] = if short { &data[..SEGMENT_HEADER_SIZE - 1] } else { &data[..] };
        match SegmentHeader::from_bytes(d) {
            None => assert!(short, "None only for short input"),
            Some(h) => {
                assert!(!short);
                let out = h.to_bytes();
                let k: usize = kani::any();
                kani::assume(k < SEGMENT_HEADER_SIZE);
                assert!(out[k] == data[k], "to_bytes(from_bytes(b)) == b");
                let b: u8 = kani::any();
                let _ = h.bucket_header(b);
                let _ = h.bucket_key(b);
            }
        }
        kani::cover!(!short);
        kani::cover!(short);
    }
}
