// ---------------------------------------------------------------------------
// appended by /verif (Kani route) — add-only, compiled only under cfg(kani)
#[cfg(kani)]
mod verif_kani_install_manifest {
    use super::*;
    use crate::install::entry::InstallFileEntry;
    use crate::install::tag::TagType;
    use cascette_crypto::md5::ContentKey;

    fn bit(mask: &[u8], i: usize) -> bool {
        i / 8 < mask.len() && (mask[i / 8] >> (7 - (i % 8))) & 1 == 1
    }

    /// C19 (bounded: exactly 2 files, 2 tags "a"/"b", any masks, any sizes): all-of / any-of queries and
    /// the size total equal intersection / union / sum over the oracle bit sets
    #[kani::proof]
    #[kani::unwind(5)]
    fn tag_queries_match_set_model_bounded() {
        let n: usize = 2;
        let ma: [u8; 1] = kani::any();
        let mb: [u8; 1] = kani::any();
        let sizes: [u32; 2] = kani::any();
        let len = (n + 7) / 8;
        let mut entries = Vec::new();
        let mut i = 0;
        while i < n {
            entries.push(InstallFileEntry::new(String::new(), ContentKey::from_bytes([0u8; 16]), sizes[i]));
            i += 1;
        }
        let tags = vec![
            InstallTag { name: String::from("a"), tag_type: TagType::Platform, bit_mask: ma[..len].to_vec() },
            InstallTag { name: String::from("b"), tag_type: TagType::Locale, bit_mask: mb[..len].to_vec() },
        ];
        let m = InstallManifest { header: InstallHeader::new(2, n as u32), tags, entries };
        let both = m.get_files_for_tags(&["a", "b"]);
        let any = m.get_files_for_any_tag(&["a", "b"]);
        let only_a = m.get_files_for_tag("a");
        let missing = m.get_files_for_tags(&["a", "zz"]);
        assert!(missing.is_empty(), "an unknown tag in an all-of query selects nothing");
        let mut cb = 0usize;
        let mut cany = 0usize;
        let mut ca = 0usize;
        let mut total: u64 = 0;
        let mut j = 0;
        while j < n {
            let (ia, ib) = (bit(&ma[..len], j), bit(&mb[..len], j));
            if ia && ib {
                assert!(cb < both.len() && both[cb].0 == j, "all-of == intersection, ascending");
                cb += 1;
                total += sizes[j] as u64;
            }
            if ia || ib {
                assert!(cany < any.len() && any[cany].0 == j, "any-of == union, ascending");
                cany += 1;
            }
            if ia {
                assert!(ca < only_a.len() && only_a[ca].0 == j);
                ca += 1;
            }
            j += 1;
        }
        assert!(cb == both.len() && cany == any.len() && ca == only_a.len(), "no extra files selected");
        assert!(m.calculate_install_size(&["a", "b"]) == total, "size total == sum over the selected set");
        kani::cover!(cb == 2);
    }
}
