// ---------------------------------------------------------------------------
// appended by /verif (Kani route) — add-only, compiled only under cfg(kani)
#[cfg(kani)]
mod verif_kani_blte_decompress {
    use super::*;
    use ::lz4_flex::block::decompress as ext_lz4_decompress;
    pub fn empty_format(_args: core::fmt::Arguments<'_>) -> String {
        String::new()
    }

    /// stands in for the external LZ4 block decoder: what matters for C02 is the size it is ASKED to
    /// provide for - lz4_flex allocates `min_uncompressed_size` bytes up front
    pub fn lz4_decompress_stub(_input: &[u8], min_uncompressed_size: usize) -> Result<Vec<u8>, lz4_flex::block::DecompressError> {
        assert!(min_uncompressed_size <= MAX_DECOMPRESSION_SIZE, "the allocation request is bounded by the documented 1 GiB cap");
        Err(lz4_flex::block::DecompressError::ExpectedAnotherByte)
    }

    /// C02 (complete over every input of up to 12 bytes = every possible 8-byte size header): the LZ4
    /// branch of decompress_chunk never panics and never asks the decoder for more than the cap because
    /// the size field inside the input said so
    #[kani::proof]
    #[kani::unwind(14)]
    #[kani::stub(alloc::fmt::format, empty_format)]
    #[kani::stub(ext_lz4_decompress, lz4_decompress_stub)]
    fn lz4_size_header_guard() {
        let data: [u8; 12] = kani::any();
        let len: usize = kani::any();
        kani::assume(len <= 12);
        let r = decompress_chunk(&data[..len], CompressionMode::LZ4);
        assert!(r.is_err(), "with the decoder refusing, the result is an error, never a panic");
        core::mem::forget(r);
        kani::cover!(len >= 8);
        kani::cover!(len < 8);
    }

    /// C02/C01 (complete for inputs up to 6 bytes): mode N is the identity; mode E and F are refused
    #[kani::proof]
    #[kani::unwind(10)]
    #[kani::stub(alloc::fmt::format, empty_format)]
    fn raw_and_refused_modes() {
        let data: [u8; 6] = kani::any();
        let len: usize = kani::any();
        kani::assume(len <= 6);
        match decompress_chunk(&data[..len], CompressionMode::None) {
            Ok(v) => {
                assert!(v.len() == len);
                let mut i = 0;
                while i < 6 {
                    assert!(i >= len || v[i] == data[i], "mode N decodes to the payload itself");
                    i += 1;
                }
            }
            Err(e) => {
                core::mem::forget(e);
                assert!(false, "mode N never fails");
            }
        }
        let r = decompress_chunk(&data[..len], CompressionMode::Encrypted);
        assert!(r.is_err(), "encrypted chunks are refused without keys");
        core::mem::forget(r);
        kani::cover!(len == 6);
    }
}
