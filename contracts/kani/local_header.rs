// ---------------------------------------------------------------------------
// appended by /verif (Kani route) — add-only, compiled only under cfg(kani)
#[cfg(kani)]
mod verif_kani_local_header {
    use super::*;

    fn any_header() -> LocalHeader {
        LocalHeader {
            encoding_key: kani::any(),
            size_with_header: kani::any(),
            flags: kani::any(),
            checksum_a: kani::any(),
            checksum_b: kani::any(),
        }
    }

    fn same(a: &LocalHeader, b: &LocalHeader) -> bool {
        let mut ok = a.size_with_header == b.size_with_header && a.flags == b.flags && a.checksum_a == b.checksum_a && a.checksum_b == b.checksum_b;
        let mut i = 0;
        while i < 16 {
            ok = ok && a.encoding_key[i] == b.encoding_key[i];
            i += 1;
        }
        ok
    }

    /// oracle for checksum_b, from the layout table in the module doc: XOR of bytes 0..26,
    /// byte i folded into lane (base_offset + i) mod 4, lanes little-endian
    fn spec_checksum_b(bytes: &[u8; LOCAL_HEADER_SIZE], base_offset: usize) -> u32 {
        let mut lanes = [0u8; 4];
        let mut i = 0usize;
        while i < 26 {
            lanes[(base_offset % 4 + i % 4) % 4] ^= bytes[i];
            i += 1;
        }
        (lanes[0] as u32) | ((lanes[1] as u32) << 8) | ((lanes[2] as u32) << 16) | ((lanes[3] as u32) << 24)
    }

    /// C08: from_bytes(to_bytes(h)) == h for every header value
    #[kani::proof]
    #[kani::unwind(31)]
    fn codec_decode_encode() {
        let h = any_header();
        let b = h.to_bytes();
        let g = LocalHeader::from_bytes(&b);
        assert!(g.is_some());
        assert!(same(&g.unwrap(), &h), "from_bytes(to_bytes(h)) == h");
        kani::cover!(h.flags == 0xBEEF);
    }

    /// C08: to_bytes(from_bytes(b)) == b for every 30-byte string; C02: no panic, None iff short
    #[kani::proof]
    #[kani::unwind(33)]
    fn codec_encode_decode() {
        let buf: [u8; 32] = kani::any();
        let len: usize = kani::any();
        kani::assume(len <= 32);
        match LocalHeader::from_bytes(&buf[..len]) {
            None => assert!(len < LOCAL_HEADER_SIZE, "None only for short input"),
            Some(h) => {
                assert!(len >= LOCAL_HEADER_SIZE);
                let out = h.to_bytes();
                let mut i = 0;
                while i < LOCAL_HEADER_SIZE {
                    assert!(out[i] == buf[i], "to_bytes(from_bytes(b)) == b");
                    i += 1;
                }
            }
        }
        kani::cover!(len == 30);
        kani::cover!(len == 29);
    }

    /// C07: compute_checksum_b == the XOR-fold oracle, for every header image and base offset
    /// whose `base_offset + 25` does not overflow usize
    #[kani::proof]
    #[kani::unwind(31)]
    fn checksum_b_is_xor_fold() {
        let bytes: [u8; LOCAL_HEADER_SIZE] = kani::any();
        let off: usize = kani::any();
        kani::assume(off <= usize::MAX - 26);
        assert!(LocalHeader::compute_checksum_b(&bytes, off) == spec_checksum_b(&bytes, off));
        kani::cover!(off % 4 == 3);
    }

    /// C07 (i): a single-byte substitution in the XOR-protected range 0..26 always changes checksum_b
    #[kani::proof]
    #[kani::unwind(31)]
    fn checksum_b_detects_single_byte_change() {
        let bytes: [u8; LOCAL_HEADER_SIZE] = kani::any();
        let off: usize = kani::any();
        kani::assume(off <= usize::MAX - 26);
        let p: usize = kani::any();
        kani::assume(p < 26);
        let v: u8 = kani::any();
        kani::assume(v != bytes[p]);
        let mut m = bytes;
        m[p] = v;
        assert!(LocalHeader::compute_checksum_b(&m, off) != LocalHeader::compute_checksum_b(&bytes, off));
        kani::cover!(p == 25);
    }

    /// C07 (ii): validate_checksums(o)  <=>  checksum_a == hashlittle(bytes[0..22], SEED) && checksum_b == xorfold(bytes[0..26], o)
    #[kani::proof]
    #[kani::unwind(31)]
    fn validate_iff_checksums_match() {
        let h = any_header();
        let off: usize = kani::any();
        kani::assume(off <= usize::MAX - 26);
        let bytes = h.to_bytes();
        let exp_a = cascette_crypto::jenkins::hashlittle(&bytes[..22], 0x3D6B_E971);
        let exp_b = spec_checksum_b(&bytes, off);
        assert!(h.validate_checksums(off) == (h.checksum_a == exp_a && h.checksum_b == exp_b));
        kani::cover!(h.validate_checksums(off));
        kani::cover!(!h.validate_checksums(off));
    }

    /// C07/C09: a header built by new() validates, stores the reversed key and size + 30
    #[kani::proof]
    #[kani::unwind(31)]
    fn new_validates() {
        let key: [u8; 16] = kani::any();
        let size: u32 = kani::any();
        kani::assume(size <= u32::MAX - LOCAL_HEADER_SIZE as u32);
        let off: usize = kani::any();
        kani::assume(off <= usize::MAX - 26);
        let h = LocalHeader::new(key, size, off);
        assert!(h.validate_checksums(off), "new(k,s,o).validate_checksums(o)");
        assert!(h.size_with_header == size + 30 && h.blte_size() == size && h.flags == 0);
        let mut i = 0;
        while i < 16 {
            assert!(h.encoding_key[i] == key[15 - i] && h.original_encoding_key()[i] == key[i]);
            i += 1;
        }
        kani::cover!(size == 0);
    }

    /// C02: blte_size() on a header parsed from arbitrary bytes must not panic
    #[kani::proof]
    #[kani::unwind(31)]
    fn parsed_header_blte_size_total() {
        let buf: [u8; LOCAL_HEADER_SIZE] = kani::any();
        if let Some(h) = LocalHeader::from_bytes(&buf) {
            let _ = h.blte_size();
            let _ = h.original_encoding_key();
        }
        kani::cover!(true);
    }
}
