// ---------------------------------------------------------------------------
// appended by /verif (Kani route) — add-only, compiled only under cfg(kani)
#[cfg(kani)]
mod verif_kani_zbsdiff_utils {
    use super::*;

    pub fn empty_format(_args: core::fmt::Arguments<'_>) -> String {
        String::new()
    }

    /// bsdiff offtin/offtout: sign-magnitude, little-endian, sign in bit 63
    fn spec_offtout(v: i64) -> [u8; 8] {
        let mag: u64 = if v < 0 { (-(v as i128)) as u64 } else { v as u64 };
        let mut b = [0u8; 8];
        let mut i = 0;
        while i < 8 {
            b[i] = ((mag >> (8 * i)) & 0xff) as u8;
            i += 1;
        }
        if v < 0 {
            b[7] |= 0x80;
        }
        b
    }

    /// C08/C16: offtout is the sign-magnitude encoding and offtin inverts it, for every value except i64::MIN
    #[kani::proof]
    #[kani::unwind(9)]
    fn offt_decode_encode() {
        let v: i64 = kani::any();
        kani::assume(v != i64::MIN);
        let b = offtout(v);
        let e = spec_offtout(v);
        let mut i = 0;
        while i < 8 {
            assert!(b[i] == e[i], "offtout == bsdiff sign-magnitude encoding");
            i += 1;
        }
        assert!(offtin(b) == v, "offtin(offtout(v)) == v");
        kani::cover!(v < 0);
    }

    /// C08/C02: offtin is total; offtout(offtin(b)) == b for every canonical b (everything except "negative zero")
    #[kani::proof]
    #[kani::unwind(9)]
    fn offt_encode_decode() {
        let b: [u8; 8] = kani::any();
        let v = offtin(b);
        let neg_zero = b[7] == 0x80 && b[0] == 0 && b[1] == 0 && b[2] == 0 && b[3] == 0 && b[4] == 0 && b[5] == 0 && b[6] == 0;
        assert!(v != i64::MIN);
        let o = offtout(v);
        let mut i = 0;
        while i < 8 {
            assert!(neg_zero || o[i] == b[i]);
            i += 1;
        }
        assert!(offtin(o) == v, "fixed point");
        kani::cover!(neg_zero);
        kani::cover!(b[7] & 0x80 != 0 && !neg_zero);
    }

    /// C02: ControlEntry::validate is total and exact (0 <= diff, extra <= 10_000_000)
    #[kani::proof]
    #[kani::stub(alloc::fmt::format, empty_format)]
    fn control_entry_validate_total() {
        let e = ControlEntry::new(kani::any(), kani::any(), kani::any());
        let r = e.validate();
        let ok = r.is_ok();
        core::mem::forget(r);
        assert!(ok == (e.diff_size >= 0 && e.extra_size >= 0 && e.diff_size <= 10_000_000 && e.extra_size <= 10_000_000));
        if ok {
            let _ = e.output_bytes();
        }
        kani::cover!(ok);
        kani::cover!(!ok);
    }
}
