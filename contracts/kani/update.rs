// ---------------------------------------------------------------------------
// appended by /verif (Kani route) — add-only, compiled only under cfg(kani)
#[cfg(kani)]
mod verif_kani_update {
    use super::*;

    fn any_status() -> UpdateStatus {
        let s: u8 = kani::any();
        kani::assume(s == 0 || s == 3 || s == 6 || s == 7);
        UpdateStatus::from_byte(s)
    }

    /// every UpdateEntry value inside the field limits of the on-disk format
    /// (archive id 10 bits, offset 30 bits - the limits named in property C05)
    fn any_entry() -> UpdateEntry {
        let id: u16 = kani::any();
        let off: u32 = kani::any();
        kani::assume(id < 1024 && off < (1u32 << 30));
        UpdateEntry {
            hash_guard: kani::any(),
            ekey: kani::any(),
            archive_location: ArchiveLocation { archive_id: id, archive_offset: off },
            encoded_size: kani::any(),
            status: any_status(),
        }
    }

    fn same(a: &UpdateEntry, b: &UpdateEntry) -> bool {
        let mut ok = a.hash_guard == b.hash_guard
            && a.archive_location.archive_id == b.archive_location.archive_id
            && a.archive_location.archive_offset == b.archive_location.archive_offset
            && a.encoded_size == b.encoded_size
            && a.status as u8 == b.status as u8;
        let mut i = 0;
        while i < 9 {
            ok = ok && a.ekey[i] == b.ekey[i];
            i += 1;
        }
        ok
    }

    /// the documented layout of the 24-byte entry, written from the table in the type's doc comment
    fn spec_layout(e: &UpdateEntry) -> [u8; UPDATE_ENTRY_SIZE] {
        let mut b = [0u8; UPDATE_ENTRY_SIZE];
        b[0] = (e.hash_guard & 0xff) as u8;
        b[1] = ((e.hash_guard >> 8) & 0xff) as u8;
        b[2] = ((e.hash_guard >> 16) & 0xff) as u8;
        b[3] = ((e.hash_guard >> 24) & 0xff) as u8;
        let mut i = 0;
        while i < 9 {
            b[4 + i] = e.ekey[i];
            i += 1;
        }
        // 40-bit big-endian: 10-bit archive id, 30-bit offset
        let packed: u64 = ((e.archive_location.archive_id as u64) << 30) | (e.archive_location.archive_offset as u64);
        b[13] = ((packed >> 32) & 0xff) as u8;
        b[14] = ((packed >> 24) & 0xff) as u8;
        b[15] = ((packed >> 16) & 0xff) as u8;
        b[16] = ((packed >> 8) & 0xff) as u8;
        b[17] = (packed & 0xff) as u8;
        b[18] = (e.encoded_size & 0xff) as u8;
        b[19] = ((e.encoded_size >> 8) & 0xff) as u8;
        b[20] = ((e.encoded_size >> 16) & 0xff) as u8;
        b[21] = ((e.encoded_size >> 24) & 0xff) as u8;
        b[22] = e.status as u8;
        b[23] = 0;
        b
    }

    /// C08/C05: to_bytes follows the documented layout and from_bytes inverts it
    #[kani::proof]
    #[kani::unwind(25)]
    fn entry_decode_encode() {
        let e = any_entry();
        let b = e.to_bytes();
        let exp = spec_layout(&e);
        let mut i = 0;
        while i < UPDATE_ENTRY_SIZE {
            assert!(b[i] == exp[i], "to_bytes == documented layout");
            i += 1;
        }
        let g = UpdateEntry::from_bytes(&b);
        assert!(same(&g, &e), "from_bytes(to_bytes(e)) == e");
        let ie = e.to_index_entry();
        assert!(ie.size == e.encoded_size && ie.archive_location.archive_id == e.archive_location.archive_id && ie.archive_location.archive_offset == e.archive_location.archive_offset);
        kani::cover!(e.archive_location.archive_id == 1023 && e.archive_location.archive_offset == (1u32 << 30) - 1);
    }

    /// C08/C02: for every 24-byte string, from_bytes is total, yields in-range fields, and
    /// to_bytes(from_bytes(b)) == b on the 22 meaningful bytes + canonical status/padding; one more
    /// round is a fixed point
    #[kani::proof]
    #[kani::unwind(25)]
    fn entry_encode_decode() {
        let b: [u8; UPDATE_ENTRY_SIZE] = kani::any();
        let e = UpdateEntry::from_bytes(&b);
        assert!(e.archive_location.archive_id < 1024 && e.archive_location.archive_offset < (1u32 << 30));
        let o = e.to_bytes();
        let mut i = 0;
        while i < 22 {
            assert!(o[i] == b[i], "meaningful bytes preserved");
            i += 1;
        }
        let canon = if b[22] == 3 || b[22] == 6 || b[22] == 7 { b[22] } else { 0 };
        assert!(o[22] == canon && o[23] == 0);
        let e2 = UpdateEntry::from_bytes(&o);
        let o2 = e2.to_bytes();
        let mut j = 0;
        while j < UPDATE_ENTRY_SIZE {
            assert!(o2[j] == o[j], "fixed point after one round");
            j += 1;
        }
        kani::cover!(b[22] == 9);
    }

    /// C07: validate_hash_guard() <=> hash_guard == hashlittle(bytes[4..23], 0) | 0x80000000
    #[kani::proof]
    #[kani::unwind(25)]
    fn entry_guard_iff() {
        let e = any_entry();
        let b = e.to_bytes();
        let exp = cascette_crypto::jenkins::hashlittle(&b[4..23], 0) | 0x8000_0000;
        assert!(e.validate_hash_guard() == (e.hash_guard == exp));
        kani::cover!(e.validate_hash_guard());
        kani::cover!(!e.validate_hash_guard());
    }

    /// C07/C09: new() always validates and never produces the "empty slot" guard 0
    #[kani::proof]
    #[kani::unwind(25)]
    fn entry_new_validates() {
        let t = any_entry();
        let e = UpdateEntry::new(t.ekey, t.archive_location.clone(), t.encoded_size, t.status);
        assert!(e.validate_hash_guard());
        assert!(e.hash_guard != 0 && (e.hash_guard & 0x8000_0000) != 0);
        let mut u = t.clone();
        u.hash_guard = e.hash_guard;
        assert!(same(&e, &u));
        kani::cover!(true);
    }

    /// C02: UpdatePage::from_bytes is total on every 512-byte page (and shorter input);
    /// Some(p) => 1..=21 entries, each the decoding of its slot, stops at the first zero guard
    #[kani::proof]
    #[kani::unwind(26)]
    fn page_from_bytes_total() {
        let data: [u8; UPDATE_PAGE_SIZE] = kani::any();
        let len: usize = kani::any();
        kani::assume(len <= UPDATE_PAGE_SIZE);
        match UpdatePage::from_bytes(&data[..len]) {
            None => {
                assert!(len < UPDATE_PAGE_SIZE || (data[0] == 0 && data[1] == 0 && data[2] == 0 && data[3] == 0));
            }
            Some(p) => {
                assert!(len == UPDATE_PAGE_SIZE);
                let n = p.len();
                assert!(n >= 1 && n <= ENTRIES_PER_PAGE);
                let k: usize = kani::any();
                kani::assume(k < n);
                let s = k * UPDATE_ENTRY_SIZE;
                assert!(!(data[s] == 0 && data[s + 1] == 0 && data[s + 2] == 0 && data[s + 3] == 0), "no entry decoded from an empty slot");
                let mut arr = [0u8; UPDATE_ENTRY_SIZE];
                let mut i = 0;
                while i < UPDATE_ENTRY_SIZE {
                    arr[i] = data[s + i];
                    i += 1;
                }
                assert!(same(&p.entries()[k], &UpdateEntry::from_bytes(&arr)), "entry k is the decoding of slot k");
                if n < ENTRIES_PER_PAGE {
                    let z = n * UPDATE_ENTRY_SIZE;
                    assert!(data[z] == 0 && data[z + 1] == 0 && data[z + 2] == 0 && data[z + 3] == 0, "parsing stops only at an empty slot");
                }
            }
        }
        kani::cover!(len == UPDATE_PAGE_SIZE && data[0] != 0 && data[24 * 20] != 0);
    }

    /// C02: UpdateSection::from_bytes is total on every 1024-byte region (two pages) and on a region
    /// with a trailing partial page; it stops at the first empty page and never reports more pages
    /// than the region holds
    #[kani::proof]
    #[kani::unwind(26)]
    fn section_from_bytes_total() {
        let data: [u8; 1024] = kani::any();
        let cut: bool = kani::any();
        let d: &[u8] = if cut { &data[..1000] } else { &data[..] };
        let s = UpdateSection::from_bytes(d);
        let full_pages = d.len() / UPDATE_PAGE_SIZE;
        assert!(s.page_count() <= full_pages, "no page is invented beyond the region");
        assert!(s.capacity_pages() == MIN_UPDATE_SECTION_SIZE / UPDATE_PAGE_SIZE, "capacity never below the 60-page minimum");
        assert!(s.entry_count() <= s.page_count() * ENTRIES_PER_PAGE);
        if data[0] == 0 && data[1] == 0 && data[2] == 0 && data[3] == 0 {
            assert!(s.page_count() == 0, "parsing stops at the first empty page");
        }
        kani::cover!(s.page_count() == 2);
        kani::cover!(cut && s.page_count() == 1);
    }
}
