// ---------------------------------------------------------------------------
// appended by /verif (Kani route) — add-only, compiled only under cfg(kani)
#[cfg(kani)]
mod verif_kani_small_enums_header {
    use super::*;

    /// C08/C02: HeaderFlags::from_byte accepts exactly 0x0F / 0x10 and inverts `as u8`
    #[kani::proof]
    fn header_flags_codec() {
        let b: u8 = kani::any();
        match HeaderFlags::from_byte(b) {
            Some(f) => assert!(f as u8 == b && (b == 0x0F || b == 0x10) && f.chunk_info_size() == (if b == 0x0F { 24 } else { 40 })),
            None => assert!(b != 0x0F && b != 0x10),
        }
        assert!(HeaderFlags::from_byte(HeaderFlags::Standard as u8) == Some(HeaderFlags::Standard) && HeaderFlags::from_byte(HeaderFlags::Extended as u8) == Some(HeaderFlags::Extended));
        kani::cover!(b == 0x10);
    }
}
