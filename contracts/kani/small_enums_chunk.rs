// ---------------------------------------------------------------------------
// appended by /verif (Kani route) — add-only, compiled only under cfg(kani)
#[cfg(kani)]
mod verif_kani_small_enums_chunk {
    use super::*;

    /// C08/C02: CompressionMode::from_byte / as_byte are mutually inverse over all 256 bytes; exactly
    /// the five documented mode bytes are accepted
    #[kani::proof]
    #[allow(deprecated)]
    fn compression_mode_codec() {
        let b: u8 = kani::any();
        match CompressionMode::from_byte(b) {
            Some(m) => {
                assert!(m.as_byte() == b, "as_byte(from_byte(b)) == b");
                assert!(b == b'N' || b == b'Z' || b == b'4' || b == b'E' || b == b'F');
            }
            None => assert!(!(b == b'N' || b == b'Z' || b == b'4' || b == b'E' || b == b'F')),
        }
        let k: u8 = kani::any();
        kani::assume(k < 5);
        let m = match k { 0 => CompressionMode::None, 1 => CompressionMode::ZLib, 2 => CompressionMode::LZ4, 3 => CompressionMode::Encrypted, _ => CompressionMode::Frame };
        assert!(CompressionMode::from_byte(m.as_byte()) == Some(m), "from_byte(as_byte(m)) == m");
        kani::cover!(b == b'4');
    }
}
